"""Static model of the Jinja templates the Swift backends render.

The templates are parsed with jinja2's own parser (``Environment.parse`` --
no rendering, no evaluation) and walked with a small abstract interpreter:

* scoping: ``for`` bodies and macros open a scope, ``if`` does not (Jinja's
  rule); a name is bound when it is a loop target / ``set`` target of the
  current or an enclosing scope, a template global or a render() keyword;
* typing: values rooted at the render() keywords (``namespace``: ApiNamespace,
  ``route_schema``: Struct) are typed through the IR attribute schema
  (irattrs.TYPED_ATTRS plus the container-valued attributes below), narrowed
  by the enclosing ``{% if %}`` tests (IR predicates and the backends' own
  one-argument field predicates, summarised from their Python bodies);
* facts: every name use, every call of a bound Python callable (with its
  argument count and argument types) and every attribute read together with
  the classes that can reach it.

The Python side of the binding (which callable or value each template name is
bound to) is read from the backend functions that load the template.
"""
import ast
import os

from .irattrs import ANY, TYPED_ATTRS, IRAttrs
from .lattice import class_test, predicate_sets
from .model import AnalysisError, FuncInfo, call_name, own_nodes, unparse
from .pathcond import path_info

RSRC = 'stone/backends/swift_rsrc'


def _jinja():
    try:
        import jinja2
        from jinja2 import nodes
    except ImportError as e:  # pragma: no cover
        raise AnalysisError('jinja2 is not importable in the repository environment: %s' % e)
    return jinja2, nodes


# ---------------------------------------------------------------- types
def cls(*names):
    return ('cls', frozenset(names))


def lst(t):
    return ('list', t)


STR = ('str',)

# container-/object-valued attributes: (owner class or None, attr) -> type builder
def _attr_type(ia, owner_classes, attr, universe):
    """Type of ``x.attr`` when x is an instance of one of owner_classes."""
    if attr in TYPED_ATTRS:
        t = TYPED_ATTRS[attr]
        if attr == 'parent_type':
            return ('cls', frozenset(owner_classes) & {'Struct', 'Union'})
        return ('cls', universe if t == ANY else frozenset(t))
    if attr in ('fields', 'all_fields', 'all_required_fields', 'all_optional_fields'):
        out = set()
        if 'Struct' in owner_classes:
            out.add('StructField')
        if 'Union' in owner_classes:
            out.add('UnionField')
        return lst(('cls', frozenset(out))) if out else None
    if attr == 'routes':
        return lst(cls('ApiRoute'))
    if attr == 'namespace':
        return cls('ApiNamespace')
    if attr == 'catch_all_field':
        return cls('UnionField')
    if attr == 'deprecated':
        return cls('DeprecationInfo')
    if attr == 'by':
        return cls('ApiRoute')
    if attr in ('name', 'doc', 'raw_doc'):
        return STR
    return None


def _call_type(attr):
    if attr == 'linearize_data_types':
        return lst(cls('Struct', 'Union'))
    if attr == 'get_all_subtypes_with_tags':
        return lst(('tuple', (lst(STR), cls('Struct'))))
    if attr == 'get_enumerated_subtypes':
        return lst(cls('UnionField'))
    return None


ROOT_TYPES = {'namespace': cls('ApiNamespace'), 'route_schema': cls('Struct'),
              'api.route_schema': cls('Struct')}


# ---------------------------------------------------------------- python side
class Binding:
    """One template as loaded by one backend function."""

    def __init__(self, template, func):
        self.template = template
        self.func = func
        self.globals = {}     # name -> (value expr, stmt)
        self.kwargs = {}      # name -> (value expr, call)
        self.replaces_globals = False
        self.render_calls = []


def _const_str(f, e):
    if isinstance(e, ast.Constant) and isinstance(e.value, str):
        return e.value
    if isinstance(e, ast.Name):
        vals = [v for n in own_nodes(f.node) if isinstance(n, ast.Assign)
                for t in n.targets if isinstance(t, ast.Name) and t.id == e.id
                for v in [n.value]]
        if len(vals) == 1:
            return _const_str(f, vals[0])
    return None


def _block_chain(node):
    out = []
    while node is not None:
        out.append(node)
        node = getattr(node, '_parent', None)
    return out


def find_bindings(pm, modules):
    """Every (template file, loading function) pair with the names bound."""
    out = []
    for mod in modules:
        for f in pm.funcs_in(mod):
            loads = []   # (target name, template file, stmt)
            for n in own_nodes(f.node):
                if isinstance(n, ast.Assign) and isinstance(n.value, ast.Call) and \
                        call_name(n.value) in ('get_template', '_jinja_template') and \
                        n.value.args and isinstance(n.targets[0], ast.Name):
                    fn = _const_str(f, n.value.args[0])
                    if fn is None:
                        if call_name(n.value) == 'get_template' and \
                                isinstance(n.value.args[0], ast.Name) and \
                                n.value.args[0].id in f.params:
                            continue   # the generic loader helper itself
                        raise AnalysisError('anchor=%s (template name not constant at line %d)'
                                            % (f.qualname, n.lineno))
                    loads.append((n.targets[0].id, fn, n))
            if not loads:
                continue
            dict_items = {}   # dict var -> {key: (value, stmt)}
            for n in own_nodes(f.node):
                if isinstance(n, ast.Assign) and isinstance(n.targets[0], ast.Subscript):
                    t = n.targets[0]
                    key = _const_str(f, t.slice)
                    if key is None:
                        continue
                    base = unparse(t.value)
                    dict_items.setdefault(base, {})[key] = (n.value, n)
            for var, fn, stmt in loads:
                b = Binding(fn, f)
                chain_ids = None
                # statements that belong to this load: those whose nearest preceding
                # assignment of ``var`` (on an enclosing block) is ``stmt``
                def owner_load(node):
                    best = None
                    anc = {id(x) for x in _block_chain(node)}
                    for v2, _fn2, s2 in loads:
                        if v2 != var or s2.lineno > node.lineno:
                            continue
                        if id(getattr(s2, '_parent', None)) in anc or s2 is node:
                            if best is None or s2.lineno > best.lineno:
                                best = s2
                    return best
                for n in own_nodes(f.node):
                    if isinstance(n, ast.Assign) and isinstance(n.targets[0], ast.Attribute) and \
                            n.targets[0].attr == 'globals' and \
                            unparse(n.targets[0].value) == var and owner_load(n) is stmt:
                        b.replaces_globals = True
                        src = unparse(n.value)
                        for k, v in dict_items.get(src, {}).items():
                            b.globals[k] = v
                    if isinstance(n, ast.Call) and isinstance(n.func, ast.Attribute) and \
                            n.func.attr == 'render' and unparse(n.func.value) == var and \
                            owner_load(n) is stmt:
                        b.render_calls.append(n)
                        for kw in n.keywords:
                            if kw.arg is None:
                                raise AnalysisError('anchor=%s (render(**x) at line %d)'
                                                    % (f.qualname, n.lineno))
                            b.kwargs[kw.arg] = (kw.value, n)
                for k, v in dict_items.get(var + '.globals', {}).items():
                    if owner_load(v[1]) is stmt:
                        b.globals[k] = v
                out.append(b)
    return out


def resolve_callable(pm, f, expr):
    """FuncInfo a bound value denotes (imported function or self._method)."""
    if isinstance(expr, ast.Name):
        r = pm.resolve_expr(f.module, expr)
        return r if isinstance(r, FuncInfo) else None
    if isinstance(expr, ast.Attribute) and isinstance(expr.value, ast.Name) and \
            expr.value.id == 'self' and f.cls is not None:
        return pm.lookup_method(f.cls, expr.attr)
    return None



# ---------------------------------------------------------------- python value typing
def _loop_of(f, name):
    for n in own_nodes(f.node, include_nested=True):
        if isinstance(n, (ast.For, ast.comprehension)) and isinstance(n.target, ast.Name) and \
                n.target.id == name:
            return n
    return None


def py_type(pm, f, e, depth=6):
    """Template-level type of a Python expression of backend function ``f``
    (what a template receives through render() or as a call result)."""
    if depth < 0 or e is None:
        return None
    txt = unparse(e)
    if txt in ROOT_TYPES:
        return ROOT_TYPES[txt]
    if isinstance(e, (ast.Tuple, ast.List)) and e.elts:
        return ('tuple', tuple(py_type(pm, f, x, depth - 1) for x in e.elts))
    if isinstance(e, ast.Attribute):
        if e.attr == 'routes':
            return lst(cls('ApiRoute'))
        if e.attr == 'route_schema':
            return cls('Struct')
        return None
    if isinstance(e, ast.Call):
        fn = e.func
        if isinstance(fn, ast.Attribute) and fn.attr == 'values' and \
                isinstance(fn.value, ast.Attribute) and fn.value.attr == 'namespaces':
            return lst(cls('ApiNamespace'))
        if isinstance(fn, ast.Attribute) and fn.attr == 'values' and isinstance(fn.value, ast.Name):
            t = py_type(pm, f, fn.value, depth - 1)
            return lst(t[1]) if t is not None and t[0] == 'dict' else None
        if isinstance(fn, ast.Name) and fn.id == 'list' and len(e.args) == 1:
            t = py_type(pm, f, e.args[0], depth - 1)
            return t if t is not None and t[0] == 'list' else None
        g = resolve_callable(pm, f, fn)
        if g is not None:
            return ret_type(pm, g, depth - 1)
        return None
    if isinstance(e, ast.Name):
        if e.id in ('namespace', 'ns') and e.id in f.params:
            return cls('ApiNamespace')
        if e.id == 'route' and e.id in f.params:
            return cls('ApiRoute')
        loop = _loop_of(f, e.id)
        vals = [n for n in own_nodes(f.node) if isinstance(n, ast.Assign)
                and any(isinstance(t, ast.Name) and t.id == e.id for t in n.targets)]
        if loop is not None and not vals:
            it = py_type(pm, f, loop.iter, depth - 1)
            return it[1] if it is not None and it[0] == 'list' else None
        if len(vals) == 1:
            v = vals[0].value
            if isinstance(v, ast.List) and not v.elts:
                apps = [c.args[0] for c in own_nodes(f.node) if isinstance(c, ast.Call) and
                        isinstance(c.func, ast.Attribute) and c.func.attr == 'append' and
                        unparse(c.func.value) == e.id and len(c.args) == 1]
                ts = [py_type(pm, f, a, depth - 1) for a in apps]
                return lst(ts[0]) if ts and all(t == ts[0] for t in ts) else None
            if isinstance(v, ast.Dict) and not v.keys:
                sets = [n.value for n in own_nodes(f.node) if isinstance(n, ast.Assign) and
                        isinstance(n.targets[0], ast.Subscript) and
                        unparse(n.targets[0].value) == e.id]
                ts = [py_type(pm, f, a, depth - 1) for a in sets]
                return ('dict', ts[0]) if ts and all(t == ts[0] for t in ts) else None
            return py_type(pm, f, v, depth - 1)
    return None


def ret_type(pm, g, depth=6):
    rets = [n.value for n in own_nodes(g.node) if isinstance(n, ast.Return) and
            n.value is not None]
    ts = [py_type(pm, g, r, depth) for r in rets]
    if ts and all(t == ts[0] for t in ts):
        return ts[0]
    return None

# ---------------------------------------------------------------- helper predicate summaries
def field_predicate_summary(pm, ia, func):
    """For ``def p(field)`` whose body starts ``data_type, _ =
    unwrap_nullable(field.data_type)``: the classes of the *unwrapped* type for
    which ``p`` can return a truthy value (over-approximation), else None."""
    fam = ia.fam
    node = func.node
    if len(func.params) != 1:
        return None
    p = func.params[0]
    subj = None
    for s in node.body:
        if isinstance(s, ast.Assign) and isinstance(s.value, ast.Call) and \
                call_name(s.value) == 'unwrap_nullable' and s.value.args and \
                unparse(s.value.args[0]) == p + '.data_type' and \
                isinstance(s.targets[0], ast.Tuple) and isinstance(s.targets[0].elts[0], ast.Name):
            subj = s.targets[0].elts[0].id
            break
    if subj is None:
        return None
    pi = path_info(node)
    universe = ia.any - {'Nullable'}
    out = set()
    for r in own_nodes(node):
        if not isinstance(r, ast.Return):
            continue
        cur = set(universe)
        for e, pol in pi.at(r):
            s = class_test(pm, fam, func.module, e, subj)
            if s is not None:
                cur &= (s if pol else fam.universe() - s)
        v = r.value
        if isinstance(v, ast.Constant) and not v.value:
            continue
        conj = v.values if isinstance(v, ast.BoolOp) and isinstance(v.op, ast.And) else [v]
        for c in conj:
            s = class_test(pm, fam, func.module, c, subj)
            if s is not None:
                cur &= s
        out |= cur
    return frozenset(out)


# ---------------------------------------------------------------- template walk
class Fact:
    def __init__(self, kind, template, lineno, **kw):
        self.kind = kind
        self.template = template
        self.lineno = lineno
        self.__dict__.update(kw)

    @property
    def where(self):
        return '%s/%s:%d' % (RSRC, self.template, self.lineno)


def jtext(n):
    """Canonical text of a jinja expression (subject key for guards)."""
    _, nodes = _jinja()
    if isinstance(n, nodes.Name):
        return n.name
    if isinstance(n, nodes.Getattr):
        return '%s.%s' % (jtext(n.node), n.attr)
    if isinstance(n, nodes.Getitem):
        return '%s[%s]' % (jtext(n.node), jtext(n.arg))
    if isinstance(n, nodes.Const):
        return repr(n.value)
    if isinstance(n, nodes.Call):
        return '%s(%s)' % (jtext(n.node), ', '.join(jtext(a) for a in n.args))
    return type(n).__name__


class TemplateAnalysis:
    def __init__(self, pm, ia, binding, repo):
        jinja2, nodes = _jinja()
        self.pm, self.ia, self.b = pm, ia, binding
        self.nodes = nodes
        path = os.path.join(repo, RSRC, binding.template)
        if not os.path.exists(path):
            raise AnalysisError('anchor=%s/%s (template missing)' % (RSRC, binding.template))
        with open(path, encoding='utf-8') as fh:
            self.src = fh.read()
        env = jinja2.Environment(trim_blocks=True, lstrip_blocks=True)
        try:
            self.tree = env.parse(self.src)
        except jinja2.TemplateSyntaxError as e:
            raise AnalysisError('anchor=%s/%s (syntax error: %s)' % (RSRC, binding.template, e))
        self.universe = ia.backend_universe()
        self.preds = predicate_sets(pm, ia.fam)
        self.facts = []
        self.callables = {}
        for k, (v, _) in binding.globals.items():
            r = resolve_callable(pm, binding.func, v)
            if r is not None:
                self.callables[k] = r
        self._summaries = {}
        base = {}
        for k in binding.globals:
            base[k] = None
        for k, (v, _) in binding.kwargs.items():
            base[k] = py_type(pm, binding.func, v) or ROOT_TYPES.get(unparse(v))
        self.bound = set(base)
        if not binding.replaces_globals:
            self.bound |= {'range', 'dict', 'lipsum', 'cycler', 'joiner', 'namespace'}
        self._walk_body(self.tree.body, [dict(base)], [])

    # -- environment
    def _lookup(self, scopes, name):
        for s in reversed(scopes):
            if name in s:
                return True, s[name]
        return False, None

    def _bind_target(self, scope, target, t):
        nodes = self.nodes
        if isinstance(target, nodes.Name):
            scope[target.name] = t
        elif isinstance(target, nodes.Tuple):
            for i, el in enumerate(target.items):
                et = None
                if t is not None and t[0] == 'tuple' and i < len(t[1]):
                    et = t[1][i]
                self._bind_target(scope, el, et)

    def _prebind(self, body, scope):
        """Jinja binds ``set`` targets for the whole enclosing scope (an ``if``
        opens none); pre-declare them so that uses before/after resolve."""
        nodes = self.nodes
        for n in body:
            if isinstance(n, nodes.Assign):
                for nm in n.target.find_all(nodes.Name) if not isinstance(n.target, nodes.Name) \
                        else [n.target]:
                    scope.setdefault(nm.name, None)
            elif isinstance(n, nodes.AssignBlock):
                if isinstance(n.target, nodes.Name):
                    scope.setdefault(n.target.name, None)
            elif isinstance(n, nodes.If):
                self._prebind(n.body, scope)
                for e in n.elif_:
                    self._prebind(e.body, scope)
                self._prebind(n.else_, scope)
            elif isinstance(n, nodes.Macro):
                scope.setdefault(n.name, None)

    # -- guards
    def _atoms(self, test, pol):
        nodes = self.nodes
        if isinstance(test, nodes.Not):
            return self._atoms(test.node, not pol)
        if isinstance(test, nodes.And) and pol:
            return self._atoms(test.left, True) + self._atoms(test.right, True)
        if isinstance(test, nodes.Or) and not pol:
            return self._atoms(test.left, False) + self._atoms(test.right, False)
        return [(test, pol)]

    def _atom_set(self, atom, subject):
        """Classes of ``subject`` (template text) allowed by one atom, or None."""
        nodes = self.nodes
        test, pol = atom
        fam = self.ia.fam
        if isinstance(test, nodes.Test) and test.name in ('true', 'false') and not test.args:
            inner = self._atom_set((test.node, True), subject)
            if inner is None:
                return None
            want = (test.name == 'true') == pol
            return inner if want else None   # "is not true" gives no exact complement
        if isinstance(test, nodes.Or):
            parts = [self._atom_set((x, True), subject) for x in (test.left, test.right)]
            if any(p is None for p in parts):
                return None
            s = parts[0] | parts[1]
            return s if pol else None
        if isinstance(test, nodes.Call) and isinstance(test.node, nodes.Name) and \
                len(test.args) == 1 and not test.kwargs:
            fn = self.callables.get(test.node.name)
            arg = jtext(test.args[0])
            if fn is None:
                return None
            if fn.module is fam.module and fn.name in self.preds and arg == subject:
                s = self.preds[fn.name]
                return s if pol else fam.universe() - s
            # backend field predicate: narrows <arg>.data_type
            if subject == arg + '.data_type' and pol:
                if fn.qualname not in self._summaries:
                    self._summaries[fn.qualname] = field_predicate_summary(self.pm, self.ia, fn)
                s = self._summaries[fn.qualname]
                if s is not None:
                    return s | {'Nullable'}
            return None
        if isinstance(test, nodes.Compare) and len(test.ops) == 1 and \
                isinstance(test.expr, nodes.Getattr) and test.expr.attr == 'name' and \
                jtext(test.expr.node) == subject and isinstance(test.ops[0].expr, nodes.Const) \
                and test.ops[0].expr.value == 'Void' and test.ops[0].op in ('eq', 'ne'):
            s = frozenset({'Void'})
            if (test.ops[0].op == 'ne') == pol:
                s = fam.universe() - s
            return s
        return None

    def _narrow(self, t, subject, guards):
        if t is None or t[0] != 'cls':
            return t
        cur = set(t[1])
        dt = bool(cur & self.ia.any)
        if not dt:
            return t
        for atom in guards:
            s = self._atom_set(atom, subject)
            if s is not None:
                cur &= s
        return ('cls', frozenset(cur))

    # -- expressions
    def _type(self, e, scopes, guards):
        nodes = self.nodes
        if isinstance(e, nodes.Name):
            ok, t = self._lookup(scopes, e.name)
            return self._narrow(t, e.name, guards) if ok else None
        if isinstance(e, nodes.Getattr):
            ot = self._type(e.node, scopes, guards)
            if ot is None or ot[0] != 'cls':
                return None
            t = _attr_type(self.ia, ot[1], e.attr, self.universe)
            return self._narrow(t, jtext(e), guards)
        if isinstance(e, nodes.Call) and isinstance(e.node, nodes.Getattr):
            return _call_type(e.node.attr)
        if isinstance(e, nodes.Call) and isinstance(e.node, nodes.Name) and \
                e.node.name in self.callables:
            return ret_type(self.pm, self.callables[e.node.name])
        if isinstance(e, nodes.Getitem) and isinstance(e.arg, nodes.Const) and \
                isinstance(e.arg.value, int):
            ot = self._type(e.node, scopes, guards)
            if ot is not None and ot[0] == 'tuple' and 0 <= e.arg.value < len(ot[1]):
                return ot[1][e.arg.value]
            if ot is not None and ot[0] == 'list':
                return ot[1]
            return None
        if isinstance(e, nodes.CondExpr):
            a = self._type(e.expr1, scopes, guards)
            b = self._type(e.expr2, scopes, guards) if e.expr2 is not None else None
            if a is not None and b is not None and a[0] == b[0] == 'cls':
                return ('cls', a[1] | b[1])
            return None
        if isinstance(e, (nodes.Const, nodes.TemplateData, nodes.Concat, nodes.Add)):
            return STR
        return None

    def _make_typer(self, scopes, guards):
        snap = [dict(x) for x in scopes]
        g = list(guards)

        def typer(argnode, attr=None):
            node = argnode if attr is None else self.nodes.Getattr(argnode, attr, 'load')
            return self._type(node, snap, g)
        return typer

    def _visit_expr(self, e, scopes, guards):
        """Record facts for every sub-expression, honouring short-circuit and
        conditional-expression guards."""
        nodes = self.nodes
        if e is None:
            return
        if isinstance(e, nodes.Name):
            if e.ctx == 'load':
                ok, _ = self._lookup(scopes, e.name)
                self.facts.append(Fact('name', self.b.template, e.lineno, name=e.name,
                                       bound=ok or e.name in self.bound))
            return
        if isinstance(e, nodes.CondExpr):
            self._visit_expr(e.test, scopes, guards)
            self._visit_expr(e.expr1, scopes, guards + self._atoms(e.test, True))
            self._visit_expr(e.expr2, scopes, guards + self._atoms(e.test, False))
            return
        if isinstance(e, nodes.And):
            self._visit_expr(e.left, scopes, guards)
            self._visit_expr(e.right, scopes, guards + self._atoms(e.left, True))
            return
        if isinstance(e, nodes.Or):
            self._visit_expr(e.left, scopes, guards)
            self._visit_expr(e.right, scopes, guards + self._atoms(e.left, False))
            return
        if isinstance(e, nodes.Getattr):
            ot = self._type(e.node, scopes, guards)
            if ot is not None and ot[0] == 'cls':
                self.facts.append(Fact('attr', self.b.template, e.lineno, subject=jtext(e.node),
                                       attr=e.attr, classes=ot[1]))
            elif ot is not None and ot[0] in ('list', 'tuple', 'str'):
                self.facts.append(Fact('attr', self.b.template, e.lineno, subject=jtext(e.node),
                                       attr=e.attr, classes=frozenset({'<%s>' % ot[0]})))
            self._visit_expr(e.node, scopes, guards)
            return
        if isinstance(e, nodes.Call):
            if isinstance(e.node, nodes.Name):
                argt = [self._type(a, scopes, guards) for a in e.args]
                kwt = {k.key: self._type(k.value, scopes, guards) for k in e.kwargs}
                self.facts.append(Fact('call', self.b.template, e.lineno, name=e.node.name,
                                       nargs=len(e.args), kwargs=sorted(kwt),
                                       argtypes=argt, kwtypes=kwt,
                                       star=bool(e.dyn_args or e.dyn_kwargs),
                                       text=jtext(e), argnodes=list(e.args),
                                       kwnodes={k.key: k.value for k in e.kwargs},
                                       typer=self._make_typer(scopes, guards),
                                       default_guarded=bool(e.args) and any(
                                           p and jtext(t) == jtext(e.args[0]) + '.has_default'
                                           for t, p in guards)))
            self._visit_expr(e.node, scopes, guards)
            for a in e.args:
                self._visit_expr(a, scopes, guards)
            for k in e.kwargs:
                self._visit_expr(k.value, scopes, guards)
            return
        for child in e.iter_child_nodes():
            self._visit_expr(child, scopes, guards)

    # -- statements
    def _walk_body(self, body, scopes, guards):
        nodes = self.nodes
        self._prebind(body, scopes[-1])
        for n in body:
            if isinstance(n, nodes.Output):
                for x in n.nodes:
                    if not isinstance(x, nodes.TemplateData):
                        self._visit_expr(x, scopes, guards)
            elif isinstance(n, nodes.Assign):
                self._visit_expr(n.node, scopes, guards)
                t = self._type(n.node, scopes, guards)
                if isinstance(n.target, nodes.Name):
                    # a name re-bound to the result of calling itself keeps being callable
                    # only before the assignment; afterwards it is a value
                    for s in reversed(scopes):
                        if n.target.name in s:
                            s[n.target.name] = t
                            break
                else:
                    self._bind_target(scopes[-1], n.target, t)
            elif isinstance(n, nodes.AssignBlock):
                self._walk_body(n.body, scopes, guards)
            elif isinstance(n, nodes.If):
                self._visit_expr(n.test, scopes, guards)
                neg = []
                self._walk_body(n.body, scopes, guards + self._atoms(n.test, True))
                neg += self._atoms(n.test, False)
                for el in n.elif_:
                    self._visit_expr(el.test, scopes, guards + neg)
                    self._walk_body(el.body, scopes, guards + neg + self._atoms(el.test, True))
                    neg += self._atoms(el.test, False)
                self._walk_body(n.else_, scopes, guards + neg)
            elif isinstance(n, nodes.For):
                self._visit_expr(n.iter, scopes, guards)
                it = self._type(n.iter, scopes, guards)
                scope = {'loop': None}
                self._bind_target(scope, n.target, it[1] if it is not None and it[0] == 'list'
                                  else None)
                self.facts.append(Fact('for', self.b.template, n.lineno, iter=jtext(n.iter),
                                       target=jtext(n.target) if isinstance(n.target, nodes.Name)
                                       else 'tuple', guards=list(guards), node=n))
                g2 = list(guards)
                if n.test is not None:
                    self._visit_expr(n.test, scopes + [scope], guards)
                    g2 += self._atoms(n.test, True)
                self._walk_body(n.body, scopes + [scope], g2)
                self._walk_body(n.else_, scopes, guards)
            elif isinstance(n, nodes.Macro):
                scope = {a.name: None for a in n.args}
                self._walk_body(n.body, scopes + [scope], guards)
            elif isinstance(n, (nodes.CallBlock, nodes.FilterBlock, nodes.With, nodes.Scope)):
                for child in n.iter_child_nodes():
                    if isinstance(child, nodes.Expr):
                        self._visit_expr(child, scopes, guards)
                self._walk_body(getattr(n, 'body', []), scopes + [{}], guards)
            elif isinstance(n, nodes.ExprStmt):
                self._visit_expr(n.node, scopes, guards)
            else:
                raise AnalysisError('anchor=%s/%s (unsupported template statement %s at line %d)'
                                    % (RSRC, self.b.template, type(n).__name__, n.lineno))
