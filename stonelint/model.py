"""Shared program model ("pm"): modules, classes, functions, import resolution.

Built from ``ast`` only.  See DESIGN.md section 2.
"""
import ast
import os

REPO = os.environ.get('STONE_REPO', '/repo')


class AnalysisError(Exception):
    """The analysis itself cannot decide (vanished anchor, unparsable file,
    instance floor not met).  Mapped to exit status 2, never to a pass and
    never to a VIOLATION."""


class Module:
    def __init__(self, name, path, relpath, source, tree, is_pkg):
        self.name = name
        self.path = path
        self.relpath = relpath
        self.source = source
        self.tree = tree
        self.is_pkg = is_pkg
        self.package = name if is_pkg else name.rpartition('.')[0]
        # local name -> ('module', dotted) | ('symbol', dotted_module, symbol)
        self.imports = {}
        self.star_imports = []
        self.classes = {}
        self.functions = {}
        self.assigns = {}  # top-level NAME = expr (last one wins; list kept too)
        self.assign_nodes = {}

    def __repr__(self):
        return 'Module(%s)' % self.name


class ClassInfo:
    def __init__(self, name, qualname, module, node, outer=None):
        self.name = name
        self.qualname = qualname
        self.module = module
        self.node = node
        self.outer = outer
        self.bases = []       # resolved ClassInfo
        self.ext_bases = []   # dotted names of unresolved bases
        self.methods = {}
        self.attrs = {}       # class-level NAME = expr

    def __repr__(self):
        return 'Class(%s)' % self.qualname


class FuncInfo:
    def __init__(self, name, qualname, module, node, cls=None, parent=None):
        self.name = name
        self.qualname = qualname
        self.module = module
        self.node = node
        self.cls = cls
        self.parent = parent
        self.nested = {}
        decos = []
        for d in getattr(node, 'decorator_list', []):
            if isinstance(d, ast.Name):
                decos.append(d.id)
            elif isinstance(d, ast.Attribute):
                decos.append(d.attr)
            elif isinstance(d, ast.Call):
                f = d.func
                decos.append(f.id if isinstance(f, ast.Name) else getattr(f, 'attr', '?'))
        self.decorators = decos
        self.is_property = 'property' in decos
        self.is_classmethod = 'classmethod' in decos
        self.is_staticmethod = 'staticmethod' in decos
        self.is_contextmanager = 'contextmanager' in decos
        self.is_abstract = 'abstractmethod' in decos

    @property
    def loc(self):
        return '%s:%d' % (self.module.relpath, self.node.lineno)

    @property
    def params(self):
        a = self.node.args
        return [x.arg for x in a.posonlyargs + a.args] + \
            ([a.vararg.arg] if a.vararg else []) + \
            [x.arg for x in a.kwonlyargs] + ([a.kwarg.arg] if a.kwarg else [])

    @property
    def short(self):
        q = self.qualname
        return q[len('stone.'):] if q.startswith('stone.') else q

    def __repr__(self):
        return 'Func(%s)' % self.qualname


def _iter_toplevel(stmts):
    """Yield statements of a module body, descending into if/try blocks (the
    repo guards typing-only imports with ``if _MYPY:`` and optional imports
    with ``try``)."""
    for s in stmts:
        yield s
        if isinstance(s, ast.If):
            yield from _iter_toplevel(s.body)
            yield from _iter_toplevel(s.orelse)
        elif isinstance(s, ast.Try):
            yield from _iter_toplevel(s.body)
            for h in s.handlers:
                yield from _iter_toplevel(h.body)
            yield from _iter_toplevel(s.orelse)
            yield from _iter_toplevel(s.finalbody)


def _number(tree):
    """Pre-order numbers: `_ord` of a node, `_ord_end` the largest number below it."""
    counter = [0]

    def go(n):
        counter[0] += 1
        n._ord = counter[0]
        for c in ast.iter_child_nodes(n):
            go(c)
        n._ord_end = counter[0]
    import sys as _sys
    old = _sys.getrecursionlimit()
    _sys.setrecursionlimit(max(old, 10000))
    try:
        go(tree)
    finally:
        _sys.setrecursionlimit(old)


class Program:
    """All non-vendored modules under <repo>/stone."""

    def __init__(self, repo=None, extra_roots=(), alpha=True):
        self.repo = repo or REPO
        self.alpha_renames = []
        self._alpha_ref = None
        self._known_functions = None
        self._known_constants = None
        self._known_params = None
        if alpha:
            from . import alpha as _alpha
            verif = os.path.dirname(os.path.dirname(os.path.abspath(__file__)))
            self._alpha_ref = _alpha.load_reference(verif)
            kp = os.path.join(verif, 'reference', 'functions.json')
            if os.path.exists(kp):
                import json as _json
                with open(kp, encoding='utf-8') as fh:
                    d_ = _json.load(fh)
                self._known_functions = set(d_['functions'])
                self._known_constants = {m: set(v) for m, v in d_.get('constants', {}).items()} \
                    if 'constants' in d_ else None
                self._known_params = d_.get('params')
        self.modules = {}
        self.classes = {}
        self.functions = {}
        self._subclasses = None
        self._load(os.path.join(self.repo, 'stone'), 'stone')
        for root, pkg in extra_roots:
            self._load(root, pkg)
        self._normalise()
        for m in self.modules.values():
            self._index_module(m)
        for c in list(self.classes.values()):
            self._resolve_bases(c)

    # ------------------------------------------------------------------
    def _load(self, root, pkg):
        if not os.path.isdir(root):
            raise AnalysisError('anchor=%s (directory missing)' % root)
        for dirpath, dirnames, filenames in os.walk(root):
            dirnames[:] = sorted(d for d in dirnames
                                 if d not in ('_vendor', '__pycache__'))
            for fn in sorted(filenames):
                if not fn.endswith('.py'):
                    continue
                path = os.path.join(dirpath, fn)
                rel = os.path.relpath(path, self.repo)
                sub = os.path.relpath(path, root)[:-3].replace(os.sep, '.')
                is_pkg = False
                if sub == '__init__':
                    name, is_pkg = pkg, True
                elif sub.endswith('.__init__'):
                    name, is_pkg = pkg + '.' + sub[:-len('.__init__')], True
                else:
                    name = pkg + '.' + sub
                with open(path, encoding='utf-8') as f:
                    src = f.read()
                try:
                    tree = ast.parse(src, filename=path)
                except SyntaxError as e:
                    raise AnalysisError('cannot parse %s: %s' % (rel, e))
                self.modules[name] = Module(name, path, rel, src, tree, is_pkg)

    def _normalise(self):
        """Normal forms, virtual inlining of helpers the reference tree does not
        have, alpha-normalisation of locals, parent links - in that order, on
        the in-memory ASTs only."""
        from . import alpha as _alpha
        from . import normalforms as _nf
        from . import inline as _inline
        trees = {name: m.tree for name, m in self.modules.items()}
        for tree in trees.values():
            _nf.normalise(tree)
            _alpha.normalise_comparisons(tree)
            _alpha.normalise_negated_tests(tree)
        self.inlined = []
        self.renamed = []
        self.kw_table = {}
        self.folded_constants = []
        if self._known_functions is not None:
            self.renamed = _inline.undo_renames(trees, self._known_functions)
            if self._known_params is not None:
                self.renamed += _inline.undo_param_renames(trees, self._known_params)
            if self._known_constants is not None:
                self.folded_constants = _inline.fold_new_constants(trees, self._known_constants)
                if self.folded_constants:
                    for tree in trees.values():
                        _nf.normalise(tree)
            self.inlined = _inline.inline_new_helpers(trees, self._known_functions)
        # (after inlining: a helper called in one arm of an if/else is a statement there)
        for tree in trees.values():
            if self.inlined:
                _alpha.normalise_negated_tests(tree)
            _alpha.normalise_conditional_assignments(tree)
        from .modset import ModSets
        ms = ModSets(list(trees.values()))
        for name, tree in trees.items():
            if self._alpha_ref is not None:
                _alpha.normalise_module(tree, name, self._alpha_ref, self.alpha_renames,
                                        self._known_functions, ms)
            for node in ast.walk(tree):
                for child in ast.iter_child_nodes(node):
                    child._parent = node
            _number(tree)
        self.kw_table = _inline.keyword_table(trees)

    # ------------------------------------------------------------------
    def _abs_module(self, m, level, modname):
        if level == 0:
            return modname
        base = m.package.split('.')
        if level > 1:
            base = base[:len(base) - (level - 1)]
        return '.'.join(base + ([modname] if modname else []))

    def _index_module(self, m):
        for s in _iter_toplevel(m.tree.body):
            if isinstance(s, ast.Import):
                for a in s.names:
                    if a.asname:
                        m.imports[a.asname] = ('module', a.name)
                    else:
                        head = a.name.split('.')[0]
                        m.imports[head] = ('module', head)
            elif isinstance(s, ast.ImportFrom):
                target = self._abs_module(m, s.level, s.module)
                for a in s.names:
                    if a.name == '*':
                        m.star_imports.append(target)
                        continue
                    local = a.asname or a.name
                    sub = target + '.' + a.name
                    if sub in self.modules:
                        m.imports[local] = ('module', sub)
                    else:
                        m.imports[local] = ('symbol', target, a.name)
            elif isinstance(s, ast.ClassDef):
                self._index_class(m, s, None, m.name)
            elif isinstance(s, (ast.FunctionDef, ast.AsyncFunctionDef)):
                self._index_func(m, s, None, None, m.name, m.functions)
            elif isinstance(s, (ast.Assign, ast.AnnAssign)):
                targets = s.targets if isinstance(s, ast.Assign) else [s.target]
                if s.value is None:
                    continue
                for t in targets:
                    if isinstance(t, ast.Name):
                        m.assigns[t.id] = s.value
                        m.assign_nodes.setdefault(t.id, []).append(s)

    def _index_class(self, m, node, outer, prefix):
        q = prefix + '.' + node.name
        c = ClassInfo(node.name, q, m, node, outer)
        self.classes[q] = c
        if outer is None:
            m.classes[node.name] = c
        for s in _iter_toplevel(node.body):
            if isinstance(s, (ast.FunctionDef, ast.AsyncFunctionDef)):
                self._index_func(m, s, c, None, q, c.methods)
            elif isinstance(s, ast.ClassDef):
                self._index_class(m, s, c, q)
            elif isinstance(s, (ast.Assign, ast.AnnAssign)):
                targets = s.targets if isinstance(s, ast.Assign) else [s.target]
                if s.value is None:
                    continue
                for t in targets:
                    if isinstance(t, ast.Name):
                        c.attrs[t.id] = s.value
        return c

    def _index_func(self, m, node, cls, parent, prefix, table):
        q = prefix + '.' + node.name
        # property setters etc. share a name; keep the first, suffix later ones
        if q in self.functions:
            n = 2
            while '%s#%d' % (q, n) in self.functions:
                n += 1
            q = '%s#%d' % (q, n)
        f = FuncInfo(node.name, q, m, node, cls, parent)
        self.functions[q] = f
        table.setdefault(node.name, f)
        self._index_nested(m, node, f, q)
        return f

    def _index_nested(self, m, node, f, q):
        for s in self._own_statements(node):
            if isinstance(s, (ast.FunctionDef, ast.AsyncFunctionDef)):
                self._index_func(m, s, None, f, q + '.<locals>', f.nested)

    @staticmethod
    def _own_statements(funcnode):
        """All statements lexically inside funcnode but not inside a nested
        def/class (the nested def itself is yielded)."""
        stack = list(reversed(funcnode.body))
        while stack:
            s = stack.pop()
            yield s
            if isinstance(s, (ast.FunctionDef, ast.AsyncFunctionDef, ast.ClassDef)):
                continue
            for field in ('body', 'orelse', 'finalbody'):
                stack.extend(reversed(getattr(s, field, []) or []))
            for h in getattr(s, 'handlers', []) or []:
                stack.extend(reversed(h.body))
            if isinstance(s, ast.Match):
                for c in s.cases:
                    stack.extend(reversed(c.body))

    def _resolve_bases(self, c):
        for b in c.node.bases:
            r = self.resolve_expr(c.module, b)
            if isinstance(r, ClassInfo):
                c.bases.append(r)
            else:
                c.ext_bases.append(dotted(b) or '?')

    # ------------------------------------------------------------------
    def resolve_symbol(self, modname, sym, _seen=None):
        """Resolve ``sym`` as seen from module ``modname`` (following
        re-exports).  Returns ClassInfo | FuncInfo | Module |
        ('assign', Module, expr) | ('external', dotted) | None."""
        _seen = _seen or set()
        if (modname, sym) in _seen:
            return None
        _seen.add((modname, sym))
        m = self.modules.get(modname)
        if m is None:
            return ('external', modname + '.' + sym)
        if sym in m.classes:
            return m.classes[sym]
        if sym in m.functions:
            return m.functions[sym]
        if sym in m.imports:
            imp = m.imports[sym]
            if imp[0] == 'module':
                return self.modules.get(imp[1]) or ('external', imp[1])
            return self.resolve_symbol(imp[1], imp[2], _seen)
        if sym in m.assigns:
            return ('assign', m, m.assigns[sym])
        sub = modname + '.' + sym
        if sub in self.modules:
            return self.modules[sub]
        for star in m.star_imports:
            r = self.resolve_symbol(star, sym, _seen)
            if r is not None and not (isinstance(r, tuple) and r[0] == 'external'
                                      and star in self.modules):
                return r
        return None

    def resolve_expr(self, module, expr):
        """Resolve a Name / dotted Attribute chain in ``module``'s global
        scope."""
        if isinstance(expr, ast.Name):
            return self.resolve_symbol(module.name, expr.id)
        if isinstance(expr, ast.Attribute):
            base = self.resolve_expr(module, expr.value)
            if isinstance(base, Module):
                return self.resolve_symbol(base.name, expr.attr)
            if isinstance(base, ClassInfo):
                m = self.lookup_method(base, expr.attr)
                if m is not None:
                    return m
                a = self.lookup_class_attr(base, expr.attr)
                if a is not None:
                    return ('assign', base.module, a)
                return None
            if isinstance(base, tuple) and base[0] == 'external':
                return ('external', base[1] + '.' + expr.attr)
        return None

    # ------------------------------------------------------------------
    def mro(self, c):
        out, seen = [], set()

        def walk(k):
            if k.qualname in seen:
                return
            seen.add(k.qualname)
            out.append(k)
            for b in k.bases:
                walk(b)
        walk(c)
        return out

    def lookup_method(self, c, name):
        for k in self.mro(c):
            if name in k.methods:
                return k.methods[name]
        return None

    def lookup_class_attr(self, c, name):
        for k in self.mro(c):
            if name in k.attrs:
                return k.attrs[name]
        return None

    def is_subclass(self, c, base):
        return any(k is base for k in self.mro(c))

    def subclasses(self, c, strict=False):
        if self._subclasses is None:
            self._subclasses = {}
            for k in self.classes.values():
                for a in self.mro(k):
                    self._subclasses.setdefault(a.qualname, []).append(k)
        subs = self._subclasses.get(c.qualname, [])
        return [k for k in subs if not (strict and k is c)]

    # ------------------------------------------------------------------
    def func(self, qualname):
        f = self.functions.get(qualname)
        if f is None:
            raise AnalysisError('anchor=%s (function not found)' % qualname)
        return f

    def cls(self, qualname):
        c = self.classes.get(qualname)
        if c is None:
            raise AnalysisError('anchor=%s (class not found)' % qualname)
        return c

    def module(self, name):
        m = self.modules.get(name)
        if m is None:
            raise AnalysisError('anchor=%s (module not found)' % name)
        return m

    def has_func(self, qualname):
        return qualname in self.functions

    def funcs_in(self, *module_prefixes):
        return [f for q, f in sorted(self.functions.items())
                if any(f.module.name == p or f.module.name.startswith(p + '.')
                       for p in module_prefixes)]

    def enclosing_function(self, node):
        """FuncInfo lexically enclosing an ast node (or None)."""
        n = node
        while n is not None:
            n = getattr(n, '_parent', None)
            if isinstance(n, (ast.FunctionDef, ast.AsyncFunctionDef)):
                return self.func_of_node(n)
        return None

    def func_of_node(self, fnode):
        idx = getattr(self, '_by_node', None)
        if idx is None:
            idx = self._by_node = {id(f.node): f for f in self.functions.values()}
        return idx.get(id(fnode))


# ----------------------------------------------------------------------
# small ast helpers used everywhere

def dotted(expr):
    """'a.b.c' for Name/Attribute chains, else None."""
    parts = []
    while isinstance(expr, ast.Attribute):
        parts.append(expr.attr)
        expr = expr.value
    if isinstance(expr, ast.Name):
        parts.append(expr.id)
        return '.'.join(reversed(parts))
    return None


def own_nodes(funcnode, include_nested=False):
    """ast.walk restricted to the function's own body (nested defs/lambdas
    are not entered unless include_nested)."""
    stack = list(reversed(funcnode.body)) if hasattr(funcnode, 'body') and \
        isinstance(funcnode.body, list) else [funcnode.body]
    while stack:
        n = stack.pop()
        yield n
        if not include_nested and isinstance(
                n, (ast.FunctionDef, ast.AsyncFunctionDef, ast.ClassDef, ast.Lambda)):
            continue
        stack.extend(reversed(list(ast.iter_child_nodes(n))))


def _is_docstring(st):
    return isinstance(st, ast.Expr) and isinstance(st.value, ast.Constant) and \
        isinstance(st.value.value, str)


def single_return_expr(funcnode):
    """The expression a straight-line function returns: exactly one ``return``,
    a direct child of the body, every other statement being a docstring,
    ``pass`` or a plain assignment of a local (no control flow, no calls for
    effect).  Locals assigned once by such a statement are substituted into
    the result, so ``x = f(a); return x`` and ``return f(a)`` read the same;
    assignments the result does not depend on are ignored.  None otherwise."""
    if id(funcnode) in _sre_cache and _sre_cache[id(funcnode)][0] is funcnode:
        return _sre_cache[id(funcnode)][1]
    r = _single_return_expr(funcnode)
    _sre_cache[id(funcnode)] = (funcnode, r)
    return r


_sre_cache = {}


def _single_return_expr(funcnode):
    ret = None
    assigns = {}
    for st in funcnode.body:
        if _is_docstring(st) or isinstance(st, ast.Pass):
            continue
        if isinstance(st, ast.Return):
            if ret is not None:
                return None
            ret = st
            continue
        if ret is not None:
            return None            # statements after the return
        if isinstance(st, ast.Assign) and len(st.targets) == 1 and \
                isinstance(st.targets[0], ast.Name):
            assigns.setdefault(st.targets[0].id, []).append(st.value)
            continue
        return None
    if ret is None or ret.value is None:
        return None
    def clone(e, depth):
        """Copy following AST fields only (never the _parent back-links)."""
        if isinstance(e, ast.Name) and isinstance(e.ctx, ast.Load) and depth:
            v = assigns.get(e.id)
            if v is not None and len(v) == 1:
                return clone(v[0], depth - 1)
        if isinstance(e, ast.AST):
            new = type(e)()
            for f in e._fields:
                if hasattr(e, f):
                    setattr(new, f, clone(getattr(e, f), depth))
            for a in ('lineno', 'col_offset', 'end_lineno', 'end_col_offset'):
                if hasattr(e, a):
                    setattr(new, a, getattr(e, a))
            return new
        if isinstance(e, list):
            return [clone(x, depth) for x in e]
        return e

    def subst(e):
        return clone(e, 6)
    out = subst(ret.value)
    ast.fix_missing_locations(out)
    return out


def returns_text(funcnode):
    """unparse(single_return_expr(f)) or None."""
    e = single_return_expr(funcnode)
    return None if e is None else unparse(e)


def self_assigns(funcnode):
    """{'self.x': value text} for the assignments to attributes of self (local
    temporaries are not part of what a constructor/reset stores)."""
    out = {}
    for n in own_nodes(funcnode):
        if isinstance(n, ast.Assign):
            for t in n.targets:
                if isinstance(t, ast.Attribute) and isinstance(t.value, ast.Name) and \
                        t.value.id == 'self':
                    out[unparse(t)] = unparse(n.value)
    return out


def calls_in(funcnode, include_nested=False):
    return [n for n in own_nodes(funcnode, include_nested) if isinstance(n, ast.Call)]


def call_name(call):
    """Rightmost name of the callee: f(...) -> 'f'; a.b.m(...) -> 'm'.
    None for anything that is not a call."""
    if not isinstance(call, ast.Call):
        return None
    f = call.func
    if isinstance(f, ast.Name):
        return f.id
    if isinstance(f, ast.Attribute):
        return f.attr
    return None


def unparse(node):
    try:
        return ast.unparse(node)
    except Exception:  # pragma: no cover
        return '<%s>' % type(node).__name__


def const_str(node):
    if isinstance(node, ast.Constant) and isinstance(node.value, str):
        return node.value
    return None


def stmt_of(node):
    """Innermost statement containing ``node``."""
    n = node
    while n is not None and not isinstance(n, ast.stmt):
        n = getattr(n, '_parent', None)
    return n


def parents(node):
    n = getattr(node, '_parent', None)
    while n is not None:
        yield n
        n = getattr(n, '_parent', None)


def loc(module, node):
    return '%s:%d' % (module.relpath, getattr(node, 'lineno', 0))


def element_sites(funcnode, include_nested=False):
    """One view of the two spellings that build a collection element by element:
    ``for T in IT: [if C:] X.append(E)`` (also ``add`` / ``X[K] = V``) and a
    comprehension ``[E for T in IT if C]``.  -> [{'iter', 'target', 'ifs', 'elt',
    'node'}]; ``node`` is the expression whose path condition (PathInfo.at)
    holds exactly when the element is produced."""
    out = []
    for n in own_nodes(funcnode, include_nested=include_nested):
        if isinstance(n, (ast.ListComp, ast.SetComp, ast.GeneratorExp, ast.DictComp)):
            g = n.generators[0]
            elt = n.value if isinstance(n, ast.DictComp) else n.elt
            out.append({'iter': g.iter, 'target': g.target,
                        'ifs': [c for gg in n.generators for c in gg.ifs], 'elt': elt,
                        'node': elt, 'owner': n})
        elif isinstance(n, ast.For):
            b = n.body
            ifs = []
            while len(b) == 1 and isinstance(b[0], ast.If) and not b[0].orelse:
                ifs.append(b[0].test)
                b = b[0].body
            if len(b) == 1 and isinstance(b[0], ast.Expr) and isinstance(b[0].value, ast.Call) \
                    and isinstance(b[0].value.func, ast.Attribute) and \
                    b[0].value.func.attr in ('append', 'add') and len(b[0].value.args) == 1:
                out.append({'iter': n.iter, 'target': n.target, 'ifs': ifs,
                            'elt': b[0].value.args[0], 'node': b[0].value, 'owner': n})
    return out
