"""C17 -- the Swift and Objective-C backends handle every accepted spec and
declare the whole API.  Structural part (DESIGN 4/C17): class-lattice typing
of the backends and their Jinja templates -- every IR attribute read is
defined for every class that can reach it; every raise/assert is a dispatch
default no class reaches; the type tables cover the classes looked up in
them; template names are bound and called with a matching arity; the doc
handlers accept every reference shape the frontend accepts; free-text spec
strings are escaped before they are placed in a quoted literal; the
per-namespace / per-type / per-route loops skip nothing.
"""
import ast
import os

from .. import totality
from ..dataflow import defs
from ..irattrs import IRAttrs
from ..irflow import IRFlow
from ..jinjamodel import RSRC, TemplateAnalysis, find_bindings, jtext
from ..lattice import class_test
from ..model import AnalysisError, call_name, dotted, own_nodes, unparse
from ..pathcond import path_info

PROP = 'C17'
B = 'stone.backends.'
MODS = tuple(B + m for m in ('swift', 'swift_types', 'swift_client', 'swift_helpers',
                             'obj_c', 'obj_c_types', 'obj_c_client', 'obj_c_helpers'))
TEMPLATE_MODS = (B + 'swift_types', B + 'swift_client')
EXPLANATION = (
    'Class-lattice typing of the Swift/Objective-C backends (8 modules) and of the 9 Jinja '
    'templates they render (parsed with jinja2, never rendered). R1: every raise/assert is a '
    'dispatch default that no IR class reaching the function can hit (universes from the IR '
    'attribute schema, from every Python and template call site of the function, narrowed by the '
    'class tests on the path; for fmt_default_value the defaultable types). R2: every template '
    'name is bound by the loading function (globals or render keywords), every call of a bound '
    'Python callable matches its signature, every bound self._method exists, every template file '
    'is loaded. R3: a lookup TABLE.get(x.__class__, fmt_class(x.name)) is reached only by classes '
    'that are keys, so no primitive is emitted as an undeclared user-type name. R4: the doc '
    'handlers (_docf) do not unpack val.split(".") into a fixed number of names nor subscript a '
    'name table with the reference, so every :field: shape the frontend accepts is handled. R5: '
    'every read of a class-specific IR attribute (Python and templates) is defined for every '
    'class that can reach it -- otherwise AttributeError / Jinja Undefined. R6: free-text spec '
    'strings (String defaults, Timestamp formats, patterns, string route attributes) pass an '
    'escaping step before being formatted between double quotes. R7: the generators iterate '
    'every namespace, every data type (struct and union branches exhaustive) and every route, '
    'and the sites that declare a namespace routes class agree with the sites that reference '
    'it; the import collectors unwrap containers alike. Decides these structural necessary '
    'conditions; does not decide lexical well-formedness of the whole output nor uniqueness of '
    'generated names.'
    ' RD (effect-condition drift, stonelint.effects): for the functions this property is anchored in (stonelint.ownership) the path formula of every raise / return / continue / break / assignment / call statement is compared with reference/effects.json by truth table over the leaf tests (so nested vs merged tests, guard clauses vs if/else ladders, De Morgan forms read alike); an effect lost on a path, or a control effect gained on one, is a violation; changed texts and re-spelled tests are not claimed.'
    " RE (expression drift, stonelint.exprdrift): the same functions' attribute names, variable reads, simple statements, calls and arithmetic/slice literals are compared with reference/expressions.json; a substituted attribute or variable, a dropped call or assignment, swapped arguments or a changed literal is a violation; any other edit is not claimed. RC (call-condition drift, stonelint.effects.run_calls): for every call of a repository or imported-library function in those functions, the path conditions of its occurrences are compared with reference/effects.json by truth table; an assignment under which the function used to make the call and now completes without it is a violation (tests on memo tables, emptiness of the iterated collection and earlier refusals excepted; re-spelled conditions are not claimed). MK (memo-key rule, stonelint.memo): a memo table or done-set the reference tree does not have must be keyed by every access path the skipped code reads, injectively and type-aware."
    ' RI (interface drift, stonelint.interface): constants and tables (folded values), compiled regular expressions (witness text), parameter defaults, special methods, base classes and caching decorators of the modules the property rests on are compared with reference/interface.json; only a concrete difference in what is computed is reported.'
    ' MU (mutation drift, stonelint.mutation): the functions the property rests on update in place only the caller-owned, class-level and module-level objects they updated on the confirmed tree, and have no new handler that swallows an exception (reference/mutations.json).')
ASSUMPTIONS = [
    'Backends are run with the options and route attributes they require (auth/host/style '
    'attributes present, client-args JSON of the documented shape): sites that only fail '
    'otherwise are listed as configuration preconditions, not findings',
    'Aliases are removed before generate() (preserve_aliases is False for these backends; '
    'checked)',
    'jinja2 (the repository\'s own dependency) parses the templates exactly as at run time',
]

# raise sites that are not class dispatch: (function short name, exception) -> reason
CONFIG_PRECONDITIONS = {}


def _funcs(pm):
    out = []

    def add(f):
        out.append(f)
        for g in f.nested.values():
            add(g)
    for m in MODS:
        for f in pm.funcs_in(m):
            add(f)
    return out


def setup(pm, ctx):
    ia = IRAttrs(pm)
    for m in MODS:
        pm.module(m)
    bindings = find_bindings(pm, TEMPLATE_MODS)
    tas = [TemplateAnalysis(pm, ia, b, pm.repo) for b in bindings]
    flow = IRFlow(pm, ia, MODS, tas)
    return ia, bindings, tas, flow


def run(pm, ctx):
    for r, t in (('C17-R1', 'raises and asserts are unreachable dispatch defaults'),
                 ('C17-R2', 'template names bound, calls match signatures, templates loaded'),
                 ('C17-R3', 'type tables cover the classes looked up in them'),
                 ('C17-R4', 'doc handlers accept every doc-reference shape'),
                 ('C17-R5', 'IR attribute reads defined for every reaching class'),
                 ('C17-R6', 'free-text spec strings escaped inside quoted literals'),
                 ('C17-R7', 'generators visit every namespace, type and route; siblings agree')):
        ctx.rule(r, t)
    ia, bindings, tas, flow = setup(pm, ctx)
    for c in ('SwiftTypesBackend', 'SwiftBackend', 'ObjCTypesBackend', 'ObjCBackend'):
        k = [x for x in pm.classes.values() if x.name == c and x.module.name in MODS]
        if len(k) != 1:
            raise AnalysisError('anchor=%s (backend class missing)' % c)
        pa = pm.lookup_class_attr(k[0], 'preserve_aliases')
        ctx.check('C17-R5', pa is None or (isinstance(pa, ast.Constant) and pa.value is False),
                  '%s does not preserve aliases' % c, k[0].module.relpath,
                  msg='%s sets preserve_aliases: Alias values now reach every formatter' % c,
                  key='C17-R5|%s|preserve_aliases' % c)
    totality.attr_reads(pm, ctx, ia, flow, 'C17-R5', 60, 'the Swift/ObjC backends')
    templates(pm, ctx, ia, bindings, tas, flow)
    totality.raises(pm, ctx, ia, flow, 'C17-R1', 6, CONFIG_PRECONDITIONS, 'the Swift/ObjC backends')
    totality.tables(pm, ctx, ia, flow, 'C17-R3', 8)
    doc_handlers(pm, ctx)
    escaping(pm, ctx, flow)
    coverage(pm, ctx, ia, tas)
    bracket_pairing(pm, ctx, ia)
    qualified_names(pm, ctx, tas)
    ctx.extra['templates'] = sorted({b.template for b in bindings})
    ctx.extra['functions_analysed'] = len(flow._all_funcs())


# ---------------------------------------------------------------- R2 + template R5

    ctx.import_rules(pm, 'C02', {'C02-R12'}, 'C17-R10',
                     'the unwrap helpers of the IR peel exactly the wrappers their names say '
                     '(shared with C02-R12)')
    from ..effects import run_decisions
    from ..ownership import OWN
    run_decisions(pm, ctx, 'C17-RD', OWN['C17'])
    from .. import exprdrift
    exprdrift.run(pm, ctx, 'C17-RE', OWN['C17'])
    from ..effects import run_calls
    run_calls(pm, ctx, 'C17-RC', OWN['C17'])
    from .. import memo
    memo.run(pm, ctx, 'C17-MK', OWN['C17'])
    from .. import interface
    interface.run(pm, ctx, 'C17-RI', OWN['C17'])
    from .. import mutation
    mutation.run(pm, ctx, 'C17-MU', OWN['C17'])


def _signature_ok(fn, nargs, kwargs):
    a = fn.node.args
    params = [x.arg for x in a.posonlyargs + a.args]
    ndef = len(a.defaults)
    if fn.cls is not None and not fn.is_staticmethod and params and params[0] in ('self', 'cls'):
        params = params[1:]
    required = params[:len(params) - ndef] if ndef else list(params)
    kwonly = [x.arg for x in a.kwonlyargs]
    if nargs > len(params) and a.vararg is None:
        return 'takes %d positional argument(s), called with %d' % (len(params), nargs)
    for k in kwargs:
        if k not in params and k not in kwonly and a.kwarg is None:
            return 'has no parameter %r' % k
        if k in params[:nargs]:
            return 'gets %r twice' % k
    missing = [p for p in required[nargs:] if p not in kwargs]
    if missing:
        return 'is called without %s' % ', '.join(missing)
    return None


def _reachable(flow, f):
    seen, todo = set(), [f]
    while todo:
        g = todo.pop()
        if g.qualname in seen:
            continue
        seen.add(g.qualname)
        if g.name == 'generate':
            return True
        todo.extend(c for c, _ in flow.sites.get(g.qualname, []))
    return False


def templates(pm, ctx, ia, bindings, tas, flow):
    present = sorted(fn for fn in os.listdir(os.path.join(pm.repo, RSRC)) if fn.endswith('.jinja'))
    loaded = sorted({b.template for b in bindings})
    for fn in present:
        ctx.check('C17-R2', fn in loaded, 'template %s is loaded by a backend' % fn,
                  '%s/%s' % (RSRC, fn), msg='template %s is never loaded: whatever it declared is '
                                            'no longer generated' % fn,
                  key='C17-R2|%s|loaded' % fn)
    ctx.floor('C17-R2', len(bindings), 9, 'template bindings')
    str_methods = set(dir(str))
    list_methods = set(dir(list)) | set(dir(tuple))
    for ta in tas:
        b = ta.b
        t = b.template
        ctx.check('C17-R2', len(b.render_calls) >= 1 and _reachable(flow, b.func),
                  '%s is rendered by %s, which generate() reaches' % (t, b.func.short),
                  b.func.loc, msg='%s is loaded but never rendered: %s' % (
                      t, 'no render() call' if not b.render_calls else
                      '%s is not reachable from generate()' % b.func.short),
                  key='C17-R2|%s|rendered' % t)
        # bound self._methods exist
        for name, (v, stmt) in sorted(b.globals.items()):
            if isinstance(v, ast.Attribute) and isinstance(v.value, ast.Name) and \
                    v.value.id == 'self' and v.attr != 'args':
                ok = b.func.cls is not None and (pm.lookup_method(b.func.cls, v.attr) is not None)
                ctx.check('C17-R2', ok, '%s: global %s -> self.%s exists' % (t, name, v.attr),
                          '%s:%d' % (b.func.module.relpath, stmt.lineno),
                          msg='template global %r is bound to self.%s, which %s does not define'
                              % (name, v.attr, b.func.cls.name if b.func.cls else '?'),
                          key='C17-R2|%s|global:%s' % (t, name))
            elif isinstance(v, ast.Name):
                r = pm.resolve_expr(b.func.module, v)
                localdef = v.id in defs(b.func.node).values or v.id in b.func.params
                ctx.check('C17-R2', r is not None or localdef,
                          '%s: global %s -> %s resolves' % (t, name, v.id),
                          '%s:%d' % (b.func.module.relpath, stmt.lineno),
                          msg='template global %r is bound to %s, which is not defined or '
                              'imported in %s' % (name, v.id, b.func.module.name),
                          key='C17-R2|%s|global:%s' % (t, name))
        unbound = {}
        for fct in ta.facts:
            if fct.kind == 'name' and not fct.bound:
                unbound.setdefault(fct.name, fct)
        names = sorted({fct.name for fct in ta.facts if fct.kind == 'name'})
        for nm in names:
            fct = unbound.get(nm)
            ctx.check('C17-R2', fct is None, '%s: name %s is bound' % (t, nm),
                      fct.where if fct else '%s/%s' % (RSRC, t),
                      msg='template %s uses %r, which %s neither puts in the template globals '
                          'nor passes to render(): it renders as empty text or raises '
                          'UndefinedError' % (t, nm, b.func.short),
                      key='C17-R2|%s|name:%s' % (t, nm))
        seen = set()
        for fct in ta.facts:
            if fct.kind != 'call':
                continue
            fn = ta.callables.get(fct.name)
            if fn is None:
                v = b.globals.get(fct.name)
                if v is not None and unparse(v[0]).startswith('self.args.'):
                    ctx.check('C17-R2', False, '%s: %s is callable' % (t, fct.name), fct.where,
                              msg='template %s calls %r, which is bound to the option value %s'
                                  % (t, fct.name, unparse(v[0])),
                              key='C17-R2|%s|call:%s' % (t, fct.name))
                continue
            if fct.star:
                continue
            err = _signature_ok(fn, fct.nargs, fct.kwargs)
            key = 'C17-R2|%s|call:%s/%d%s' % (t, fct.name, fct.nargs,
                                              ''.join(',' + k for k in fct.kwargs))
            if key in seen and err is None:
                continue
            seen.add(key)
            ctx.check('C17-R2', err is None, '%s: call %s matches %s' % (t, fct.text, fn.short),
                      fct.where, msg='template %s calls %s, but %s %s' % (t, fct.text, fn.short,
                                                                         err), key=key)
        seen = set()
        for fct in ta.facts:
            if fct.kind != 'attr':
                continue
            pseudo = [c for c in fct.classes if c.startswith('<')]
            if pseudo:
                ok = fct.attr in (str_methods if pseudo[0] == '<str>' else list_methods)
                lack = [] if ok else pseudo
            else:
                lack = sorted(c for c in fct.classes if fct.attr not in ia.attrs_of(c))
            key = 'C17-R5|%s|%s.%s' % (t, fct.subject, fct.attr)
            if key in seen and not lack:
                continue
            seen.add(key)
            ctx.check('C17-R5', not lack, '%s reads %s.%s' % (t, fct.subject, fct.attr),
                      fct.where,
                      msg='template %s reads %s.%s where the value can be %s, which %s not '
                          'define it (Jinja Undefined: empty output or UndefinedError)'
                          % (t, fct.subject, fct.attr, ', '.join(lack),
                             'does' if len(lack) == 1 else 'do'), key=key)
    ctx.extra['template_facts'] = {ta.b.template: len(ta.facts) for ta in tas}


# ---------------------------------------------------------------- R4
def doc_handlers(pm, ctx):
    hs = [f for m in MODS for f in pm.funcs_in(m) if f.name == '_docf']
    ctx.floor('C17-R4', len(hs), 3, '_docf handlers')
    for f in hs:
        pi = path_info(f.node)
        val = f.params[-1]
        derived = {val}
        changed = True
        d = defs(f.node)
        while changed:
            changed = False
            for nm, vals in d.values.items():
                if nm in derived:
                    continue
                if any(v is not None and any(isinstance(x, ast.Name) and x.id in derived
                                             for x in ast.walk(v)) for _, v, _ in vals):
                    derived.add(nm)
                    changed = True
        bad = []
        for n in own_nodes(f.node):
            if isinstance(n, ast.Assign) and isinstance(n.targets[0], ast.Tuple) and \
                    isinstance(n.value, ast.Call) and isinstance(n.value.func, ast.Attribute) \
                    and n.value.func.attr in ('split', 'rsplit'):
                k = len(n.targets[0].elts)
                maxsplit = None
                if len(n.value.args) > 1 and isinstance(n.value.args[1], ast.Constant):
                    maxsplit = n.value.args[1].value
                sep = n.value.args[0] if n.value.args else None
                subj = unparse(n.value.func.value)
                guarded = sep is not None and any(
                    pol and isinstance(e, ast.Compare) and isinstance(e.ops[0], ast.In) and
                    unparse(e.left) == unparse(sep) and unparse(e.comparators[0]) == subj
                    for e, pol in pi.at(n))
                if not (guarded and maxsplit is not None and k == maxsplit + 1):
                    bad.append((n, 'unpacks %s into %d names: a reference with more separators '
                                   'raises ValueError' % (unparse(n.value), k)))
            if isinstance(n, ast.Assign) and isinstance(n.targets[0], ast.Tuple) and \
                    isinstance(n.value, ast.Subscript) and isinstance(n.value.value, ast.Call) \
                    and isinstance(n.value.value.func, ast.Attribute) and \
                    n.value.value.func.attr in ('split', 'rsplit'):
                # x.split(sep)[-k:] into k names: exact only for k == 2 under `sep in x`
                call = n.value.value
                k = len(n.targets[0].elts)
                sl = n.value.slice
                tail = isinstance(sl, ast.Slice) and sl.upper is None and sl.step is None and \
                    isinstance(sl.lower, ast.UnaryOp) and isinstance(sl.lower.op, ast.USub) and \
                    isinstance(sl.lower.operand, ast.Constant) and sl.lower.operand.value == k
                sep = call.args[0] if call.args else None
                subj = unparse(call.func.value)
                guarded = sep is not None and any(
                    pol and isinstance(e, ast.Compare) and isinstance(e.ops[0], ast.In) and
                    unparse(e.left) == unparse(sep) and unparse(e.comparators[0]) == subj
                    for e, pol in pi.at(n))
                if not (tail and k == 2 and guarded):
                    bad.append((n, 'unpacks %s into %d names: not every accepted reference has '
                                   'that many parts' % (unparse(n.value), k)))
            if isinstance(n, ast.Subscript) and isinstance(n.ctx, ast.Load) and \
                    isinstance(n.value, ast.Attribute) and isinstance(n.value.value, ast.Name) \
                    and n.value.value.id == 'self' and \
                    any(isinstance(x, ast.Name) and x.id in derived for x in ast.walk(n.slice)):
                bad.append((n, 'subscripts %s with a name taken from the doc reference: an alias '
                               'or another namespace\'s type raises KeyError'
                            % unparse(n.value)))
        ctx.check('C17-R4', not bad, '%s accepts every doc-reference shape' % f.short, f.loc,
                  msg='%s %s' % (f.short, '; '.join('line %d %s' % (n.lineno, m)
                                                    for n, m in bad)),
                  key='C17-R4|%s' % f.qualname)
    v = pm.func('stone.frontend.ir_generator.IRGenerator._validate_doc_refs_helper')
    ok = any(isinstance(n, ast.Call) and call_name(n) == 'parse_route_name_and_version'
             for n in own_nodes(v.node))
    ctx.check('C17-R4', ok, 'the frontend validates the version of every :route: reference', v.loc,
              msg='_validate_doc_refs_helper no longer parses route versions: int(version) in the '
                  'Swift _docf can raise', key='C17-R4|route-version')


# ---------------------------------------------------------------- R6
SOURCES = {'default': 'a String default', 'format': 'a Timestamp format',
           'pattern': 'a String pattern'}


def _is_escape_call(n):
    """x.replace('"', '\\"') in bytes or str."""
    if isinstance(n, ast.Call) and isinstance(n.func, ast.Attribute) and \
            n.func.attr == 'replace' and len(n.args) == 2 and \
            all(isinstance(a, ast.Constant) for a in n.args):
        a, b = n.args[0].value, n.args[1].value
        q, e = ('"', '\\"') if isinstance(a, str) else (b'"', b'\\"')
        return a == q and b == e
    return False


def _is_doubling_call(n):
    """A transformation that doubles backslashes: encode('unicode_escape') or
    replace('\\', '\\\\')."""
    if not (isinstance(n, ast.Call) and isinstance(n.func, ast.Attribute)):
        return False
    if n.func.attr == 'encode' and n.args and isinstance(n.args[0], ast.Constant) and \
            n.args[0].value == 'unicode_escape':
        return True
    if n.func.attr == 'replace' and len(n.args) == 2 and \
            all(isinstance(a, ast.Constant) for a in n.args):
        a, b = n.args[0].value, n.args[1].value
        return (a, b) in (('\\', '\\\\'), (b'\\', b'\\\\'))
    return False


def _receiver_root(call):
    x = call.func.value
    while True:
        if isinstance(x, ast.Call) and isinstance(x.func, ast.Attribute):
            x = x.func.value
        elif isinstance(x, ast.IfExp):
            x = x.body
        else:
            return x


def _escape_effective(esc, exprs):
    """The quote escape is not followed by a backslash-doubling step (which
    would turn the inserted \\" into \\\\" and re-expose the quote)."""
    x = esc
    while True:
        par = getattr(x, '_parent', None)
        if isinstance(par, ast.Attribute) and isinstance(getattr(par, '_parent', None), ast.Call) \
                and par._parent.func is par:
            x = par._parent
            if _is_doubling_call(x):
                return False
            continue
        break
    # across statements: v = <escape>; v = v.<doubling>()
    stmt = esc
    while stmt is not None and not isinstance(stmt, ast.stmt):
        stmt = getattr(stmt, '_parent', None)
    targets = {t.id for t in getattr(stmt, 'targets', []) if isinstance(t, ast.Name)}
    for e in exprs:
        for d in ast.walk(e):
            if _is_doubling_call(d):
                root = _receiver_root(d)
                if isinstance(root, ast.Name) and root.id in targets and \
                        d.lineno > esc.lineno and not any(y is esc for y in ast.walk(d)):
                    return False
    return True


def escaping(pm, ctx, flow):
    funcs = flow._all_funcs()
    # functions that escape their argument
    escapers = set()
    for f in funcs:
        rets = [n for n in own_nodes(f.node) if isinstance(n, ast.Return) and n.value is not None]
        body = list(own_nodes(f.node))
        if rets and len(f.params) == 1 and any(
                _is_escape_call(x) and _escape_effective(x, [r.value for r in rets])
                for x in body):
            escapers.add(f.qualname)

    def closure(f, expr, depth=4):
        """Expressions flowing into ``expr`` through locals."""
        out, seen = [expr], set()
        d = defs(f.node)
        todo = [expr]
        while todo and depth:
            nxt = []
            for e in todo:
                for x in ast.walk(e):
                    if isinstance(x, ast.Name) and x.id not in seen:
                        seen.add(x.id)
                        for v in d.all_values(x.id):
                            out.append(v)
                            nxt.append(v)
            todo = nxt
            depth -= 1
        return out, seen

    def sources_of(f, expr, stack=()):
        exprs, names = closure(f, expr)
        src = {}
        sanitized = False
        for e in exprs:
            for x in ast.walk(e):
                if _is_escape_call(x) and _escape_effective(x, exprs):
                    sanitized = True
                if isinstance(x, ast.Call) and any(g.qualname in escapers
                                                   for g in flow.resolve(f, x)):
                    sanitized = True
                if isinstance(x, ast.Attribute) and x.attr in SOURCES and not (
                        isinstance(getattr(x, '_parent', None), ast.Call) and
                        x._parent.func is x):
                    src[x.attr] = SOURCES[x.attr]
                if isinstance(x, ast.Call) and isinstance(x.func, ast.Attribute) and \
                        x.func.attr == 'get' and unparse(x.func.value).endswith('.attrs'):
                    src['attrs'] = 'a route attribute value'
        for p in names & set(f.params):
            if (f.qualname, p) in stack:
                continue
            for caller, call in flow.sites.get(f.qualname, []):
                arg = flow._arg_for(f, call, p)
                if arg is None or arg == 'default':
                    continue
                s2, san2 = sources_of(caller, arg, stack + ((f.qualname, p),))
                if not san2:
                    src.update(s2)
        return src, sanitized

    n = 0
    for f in funcs:
        for c in own_nodes(f.node):
            if not (isinstance(c, ast.Call) and isinstance(c.func, ast.Attribute) and
                    c.func.attr == 'format'):
                continue
            tmpl = c.func.value
            if isinstance(tmpl, ast.Name):
                v = defs(f.node).single(tmpl.id)
                tmpl = v if v is not None else tmpl
            if not (isinstance(tmpl, ast.Constant) and isinstance(tmpl.value, str)):
                continue
            text = tmpl.value
            # positional placeholders inside a double-quoted segment
            idx, pos, quoted = 0, 0, []
            while True:
                i = text.find('{', pos)
                if i < 0:
                    break
                if text[i:i + 2] == '{{':
                    pos = i + 2
                    continue
                j = text.find('}', i)
                if j < 0:
                    break
                field = text[i + 1:j].split(':')[0].split('!')[0]
                k = idx if field == '' else (int(field) if field.isdigit() else None)
                if field == '':
                    idx += 1
                inside = text[:i].count('"') % 2 == 1 and '"' in text[j:]
                if inside and k is not None and k < len(c.args):
                    quoted.append(c.args[k])
                pos = j + 1
            for arg in quoted:
                src, sanitized = sources_of(f, arg)
                if not src:
                    continue
                n += 1
                ctx.check('C17-R6', sanitized,
                          '%s: %s placed in a quoted literal is escaped' % (f.short,
                                                                            unparse(arg)[:40]),
                          '%s:%d' % (f.module.relpath, c.lineno),
                          msg='%s formats %s (%s) between double quotes without escaping: a '
                              'quote or backslash in the spec text ends the literal early'
                              % (f.short, unparse(arg)[:60], ', '.join(sorted(src.values()))),
                          key='C17-R6|%s|%s' % (f.qualname, '+'.join(sorted(src))))
    ctx.floor('C17-R6', n, 4, 'quoted-literal sites fed by free-text spec strings')


# ---------------------------------------------------------------- R7
def coverage(pm, ctx, ia, tas):
    # templates: loops over linearize_data_types dispatch struct and union exhaustively
    for ta in tas:
        nodes = ta.nodes
        for fct in ta.facts:
            if fct.kind != 'for' or not fct.iter.endswith('.linearize_data_types()'):
                continue
            loop = fct.node
            var = fct.target
            covered = set()
            ifs = [x for x in loop.body if isinstance(x, nodes.If)]
            for i in ifs:
                tests = [i.test] + [e.test for e in i.elif_]
                got = set()
                for t in tests:
                    s = ta._atom_set((t, True), var)
                    if s is not None:
                        got |= s
                if i.else_:
                    got = {'Struct', 'Union'}
                if got & {'Struct', 'Union'}:
                    covered = got
                    break
            ctx.check('C17-R7', {'Struct', 'Union'} <= covered and fct.node.test is None,
                      '%s declares structs and unions of every namespace type' % ta.b.template,
                      fct.where, msg='the loop over %s in %s no longer has a branch for %s'
                                     % (fct.iter, ta.b.template,
                                        sorted({'Struct', 'Union'} - covered) or 'every type '
                                        '(filtered)'),
                      key='C17-R7|%s|types' % ta.b.template)
        if ta.b.template in ('SwiftTypes.jinja', 'SwiftRoutes.jinja', 'ObjCRoutes.jinja'):
            rl = [f for f in ta.facts if f.kind == 'for' and f.iter == 'namespace.routes']
            ctx.check('C17-R7', len(rl) >= 1 and all(f.node.test is None for f in rl),
                      '%s iterates every route of the namespace' % ta.b.template,
                      rl[0].where if rl else '%s/%s' % (RSRC, ta.b.template),
                      msg='%s no longer loops over namespace.routes unfiltered' % ta.b.template,
                      key='C17-R7|%s|routes' % ta.b.template)
    # python generators: unconditional loops over api.namespaces.values()
    def ns_loops(f):
        return [n for n in own_nodes(f.node) if isinstance(n, ast.For) and
                unparse(n.iter) == 'api.namespaces.values()']
    st = pm.func(B + 'swift_types.SwiftTypesBackend.generate')
    pi = path_info(st.node)
    renders = [c for c in own_nodes(st.node) if isinstance(c, ast.Call) and call_name(c) ==
               'render']
    in_loop = [c for c in renders if any(l in _ancestors(c) for l in ns_loops(st))]
    writes = [c for c in own_nodes(st.node) if isinstance(c, ast.Call) and call_name(c) ==
              '_write_output_in_target_folder']
    ok = len(in_loop) == 2 and len(writes) == 2 and all(
        {unparse(e) for e, p in pi.at(c)} <= {'self.args.objc'} for c in in_loop + writes)
    ctx.check('C17-R7', ok, 'swift_types renders and writes one file per namespace', st.loc,
              msg='SwiftTypesBackend.generate no longer renders and writes a file for every '
                  'namespace unconditionally', key='C17-R7|swift_types|namespaces')
    ot = pm.func(B + 'obj_c_types.ObjCTypesBackend.generate')
    pi = path_info(ot.node)
    calls = [c for c in own_nodes(ot.node) if isinstance(c, ast.Call) and call_name(c) ==
             '_generate_namespace_types']
    ok = len(calls) == 1 and any(l in _ancestors(calls[0]) for l in ns_loops(ot)) and \
        not [1 for e, p in pi.at(calls[0])]
    ctx.check('C17-R7', ok, 'obj_c_types generates the types of every namespace', ot.loc,
              msg='ObjCTypesBackend.generate no longer calls _generate_namespace_types for '
                  'every namespace unconditionally', key='C17-R7|obj_c_types|namespaces')
    g = pm.func(B + 'obj_c_types.ObjCTypesBackend._generate_namespace_types')
    pi = path_info(g.node)
    fam = ia.fam
    loops = [n for n in own_nodes(g.node) if isinstance(n, ast.For) and
             call_name(n.iter) == 'linearize_data_types' if isinstance(n.iter, ast.Call)]
    want = {'_generate_struct_class_h': 'Struct', '_generate_union_class_h': 'Union',
            '_generate_struct_class_m': 'Struct', '_generate_union_class_m': 'Union'}
    for name, klass in sorted(want.items()):
        cs = [c for c in own_nodes(g.node) if isinstance(c, ast.Call) and call_name(c) == name]
        good = False
        if len(cs) == 1 and any(l in _ancestors(cs[0]) for l in loops):
            cur = {'Struct', 'Union'}
            other = []
            for e, pol in pi.at(cs[0]):
                s = class_test(pm, fam, g.module, e, 'data_type')
                if s is not None:
                    cur &= (s if pol else fam.universe() - s)
                else:
                    other.append(unparse(e))
            good = cur == {klass} and not other
        ctx.check('C17-R7', good, 'obj_c_types calls %s for every %s' % (name, klass.lower()),
                  g.loc, msg='_generate_namespace_types no longer calls %s for every %s of the '
                             'namespace' % (name, klass.lower()),
                  key='C17-R7|obj_c_types|%s' % name)
    # swift_client: the routes class is generated under the same condition the client refers to it
    sc_gen = pm.func(B + 'swift_client.SwiftBackend._generate_routes')
    sc_fld = pm.func(B + 'swift_client.SwiftBackend._namespace_fields')
    guard = '_namespace_contains_valid_routes_for_auth_type'
    early = [n for n in sc_gen.node.body if isinstance(n, ast.If) and
             isinstance(n.test, ast.UnaryOp) and isinstance(n.test.op, ast.Not) and
             isinstance(n.test.operand, ast.Call) and call_name(n.test.operand) == guard and
             len(n.body) == 1 and isinstance(n.body[0], ast.Return)]
    pi = path_info(sc_fld.node)
    from ..model import element_sites
    apps = [l for l in element_sites(sc_fld.node)]
    same = len(apps) == 1 and [(call_name(e) if isinstance(e, ast.Call) else unparse(e), p)
                               for e, p in pi.at(apps[0]['node'])] == [(guard, True)]
    ctx.check('C17-R7', bool(early) and same,
              'swift_client declares a namespace field exactly when it generates the routes class',
              sc_fld.loc, msg='SwiftBackend._namespace_fields and _generate_routes no longer use '
                              'the same %s condition: the client refers to a routes class that '
                              'is not generated (or the reverse)' % guard,
              key='C17-R7|swift_client|namespace_fields')
    gen = pm.func(B + 'swift_client.SwiftBackend.generate')
    pi = path_info(gen.node)
    cs = [c for c in own_nodes(gen.node) if isinstance(c, ast.Call) and
          call_name(c) == '_generate_routes']
    ok = len(cs) == 1 and [unparse(e) for e, p in pi.at(cs[0]) if p] == ['namespace.routes'] and \
        any(l in _ancestors(cs[0]) for l in ns_loops(gen))
    ctx.check('C17-R7', ok, 'swift_client generates routes for every namespace that has routes',
              gen.loc, msg='SwiftBackend.generate no longer calls _generate_routes for every '
                           'namespace with routes', key='C17-R7|swift_client|routes')
    # obj_c_client: every site that declares/refers to the namespace routes class uses one guard
    oc = [f for f in pm.funcs_in(B + 'obj_c_client') if f.cls is not None and
          f.cls.name == 'ObjCBackend']
    want_guard = 'namespace.routes and self.namespace_to_has_routes[namespace]'
    alt = 'ns.routes and self.namespace_to_has_routes[ns]'
    n_sites = 0
    for f in oc:
        pi = path_info(f.node)
        for c in own_nodes(f.node):
            if isinstance(c, ast.Call) and call_name(c) == 'fmt_routes_class' and \
                    f.name in ('generate', '_generate_client_m', '_generate_client_h'):
                n_sites += 1
                conds = {unparse(e) for e, p in pi.at(c) if p}
                par = c
                comp_ok = False
                for a in _ancestors(c):
                    if isinstance(a, ast.ListComp):
                        comp_ok = any(unparse(i) == alt for g2 in a.generators for i in g2.ifs)
                ok = comp_ok or {'namespace.routes', 'self.namespace_to_has_routes[namespace]'} \
                    <= conds or want_guard in conds
                ctx.check('C17-R7', ok, '%s: routes class of a namespace used under the common '
                                        'guard' % f.short, '%s:%d' % (f.module.relpath, c.lineno),
                          msg='%s refers to the routes class of a namespace without the guard '
                              '`%s` the other sites use' % (f.short, want_guard),
                          key='C17-R7|%s|routes-class-guard:%d' % (f.qualname, n_sites))
    ctx.floor('C17-R7', n_sites, 5, 'obj_c_client routes-class sites')
    # import collectors unwrap lists and maps in a loop
    base = B + 'obj_c.ObjCBaseBackend.'
    for name in ('_get_imports_m', '_get_imports_h'):
        f = pm.func(base + name)
        ws = [n for n in own_nodes(f.node) if isinstance(n, ast.While) and
              'is_list_type(data_type)' in unparse(n.test) and
              'is_map_type(data_type)' in unparse(n.test)]
        ok = len(ws) == 1 and any(isinstance(x, ast.Attribute) and x.attr == 'value_data_type'
                                  for x in ast.walk(ws[0])) and \
            any(isinstance(x, ast.Attribute) and x.attr == 'data_type' for s in ws[0].body
                for x in ast.walk(s))
        after = False
        if ok:
            blk = ws[0]._parent.body
            rest = blk[blk.index(ws[0]) + 1:]
            after = any(isinstance(s, ast.If) and 'is_user_defined_type(data_type)' in
                        unparse(s.test) for s in rest)
        ctx.check('C17-R7', ok and after,
                  '%s unwraps nested lists and maps before importing a field type' % name, f.loc,
                  msg='%s no longer unwraps list/map field types in a loop: user types nested '
                      'two containers deep are used without an import' % name,
                  key='C17-R7|%s|unwrap' % f.qualname)


def bracket_pairing(pm, ctx, ia):
    """R8: mapped_list_info returns an opening text (`{ $0.map ` per nesting
    level) and the matching closing text.  On every feasible path of a
    function that unpacks them, the closing text is used exactly as often as
    the opening one -- otherwise a nested list yields unbalanced braces."""
    from ..paths import enumerate_paths
    ctx.rule('C17-R8', 'block openers and closers obtained from mapped_list_info are used in pairs '
                       'on every path (balanced braces for nested lists)')
    fam = ia.fam
    n = 0
    for m in (B + 'swift', B + 'swift_types', B + 'swift_client'):
        for f in pm.funcs_in(m):
            pre = suf = None
            for a in own_nodes(f.node):
                if isinstance(a, ast.Assign) and isinstance(a.value, ast.Call) and \
                        call_name(a.value) == 'mapped_list_info' and \
                        isinstance(a.targets[0], ast.Tuple) and len(a.targets[0].elts) == 5:
                    e1, e2 = a.targets[0].elts[1], a.targets[0].elts[2]
                    if isinstance(e1, ast.Name) and isinstance(e2, ast.Name):
                        pre, suf = e1.id, e2.id
            if pre is None:
                continue
            n += 1
            bad = set()
            for p in enumerate_paths(f.node, max_paths=20000):
                if p.end != 'return':
                    continue
                # class-lattice feasibility: the class tests along the path are satisfiable
                subjects = {}
                feasible = True
                for e, pol in p.atoms:
                    for x in ast.walk(e):
                        if isinstance(x, ast.Call) and x.args and isinstance(x.func, ast.Name):
                            subjects.setdefault(unparse(x.args[0]), None)
                for sj in subjects:
                    cur = set(fam.universe())
                    for e, pol in p.atoms:
                        t = class_test(pm, fam, f.module, e, sj)
                        if t is not None:
                            cur &= (t if pol else fam.universe() - t)
                    if not cur:
                        feasible = False
                if not feasible:
                    continue
                cp = cs = 0
                for st in p.stmts:
                    if isinstance(st, (ast.If, ast.For, ast.While, ast.With, ast.Try)):
                        continue
                    names = [x.id for x in ast.walk(st) if isinstance(x, ast.Name) and
                             isinstance(x.ctx, ast.Load)]
                    cp += names.count(pre)
                    cs += names.count(suf)
                if cp != cs:
                    bad.add((cp, cs, p.end_node.lineno))
            ctx.check('C17-R8', not bad, '%s uses %s and %s in pairs on every path' % (
                f.short, pre, suf), f.loc,
                msg='%s has a path (returning at line %s) that uses the opener %d time(s) and '
                    'the closer %d time(s): a list of lists gets unbalanced braces'
                    % (f.short, sorted({b[2] for b in bad}), sorted(bad)[0][0] if bad else 0,
                       sorted(bad)[0][1] if bad else 0),
                key='C17-R8|%s' % f.qualname)
    ctx.floor('C17-R8', n, 5, 'functions that unpack mapped_list_info')


def qualified_names(pm, ctx, tas):
    """R9: an Objective-C compatible class is named DBX<Namespace><Type> after
    the namespace *of the type*.  Wherever a template or a backend function
    spells such a name from a type expression T, the namespace part is
    T.namespace.name -- not the namespace being rendered (a route may use a
    type of another namespace)."""
    ctx.rule('C17-R9', 'DBX<Namespace><Type> names take the namespace from the type they name')
    n = 0
    for ta in tas:
        nodes = ta.nodes
        for e in ta.tree.find_all((nodes.Add, nodes.Concat)):
            # flatten a + b + c
            parts = []

            def flat(x):
                if isinstance(x, nodes.Add):
                    flat(x.left)
                    flat(x.right)
                elif isinstance(x, nodes.Concat):
                    for y in x.nodes:
                        flat(y)
                else:
                    parts.append(x)
            flat(e)
            for i in range(len(parts) - 2):
                a, b, c = parts[i:i + 3]
                if isinstance(a, nodes.Const) and a.value == 'DBX' and \
                        all(isinstance(x, nodes.Call) and isinstance(x.node, nodes.Name) and
                            x.node.name == 'fmt_class' and len(x.args) == 1 for x in (b, c)):
                    tname = jtext(c.args[0])
                    if not tname.endswith('.name'):
                        continue
                    owner = tname[:-len('.name')]
                    if not owner.endswith('data_type'):
                        continue
                    n += 1
                    ctx.check('C17-R9', jtext(b.args[0]) == owner + '.namespace.name',
                              '%s: DBX name of %s uses its own namespace' % (ta.b.template, owner),
                              '%s/%s:%d' % (RSRC, ta.b.template, e.lineno),
                              msg='%s names the class of %s with the namespace %s: a type of '
                                  'another namespace gets the name of a class that is never '
                                  'declared' % (ta.b.template, owner, jtext(b.args[0])),
                              key='C17-R9|%s|%s' % (ta.b.template, owner))
    for f in [g for m in MODS for g in pm.funcs_in(m)]:
        for c in own_nodes(f.node):
            if isinstance(c, ast.Call) and isinstance(c.func, ast.Attribute) and \
                    c.func.attr == 'format' and isinstance(c.func.value, ast.Constant) and \
                    isinstance(c.func.value.value, str) and \
                    c.func.value.value.startswith('DBX{}{}') and len(c.args) >= 2:
                a, b = c.args[0], c.args[1]
                if all(isinstance(x, ast.Call) and call_name(x) == 'fmt_class' and x.args
                       for x in (a, b)):
                    tname = unparse(b.args[0])
                    if not tname.endswith('.name'):
                        continue
                    owner = tname[:-len('.name')]
                    if not owner.endswith('data_type'):
                        continue      # routes and namespaces are named after where they live
                    n += 1
                    ctx.check('C17-R9', unparse(a.args[0]) == owner + '.namespace.name',
                              '%s: DBX name of %s uses its own namespace' % (f.short, owner),
                              '%s:%d' % (f.module.relpath, c.lineno),
                              msg='%s names the class of %s with the namespace %s'
                                  % (f.short, owner, unparse(a.args[0])),
                              key='C17-R9|%s|%s' % (f.qualname, owner))
    ctx.floor('C17-R9', n, 2, 'DBX<Namespace><Type> name constructions')


def _ancestors(n):
    out = []
    n = getattr(n, '_parent', None)
    while n is not None:
        out.append(n)
        n = getattr(n, '_parent', None)
    return out
