"""Expression drift (cross-check through time, companion of conddrift).

For every function the reference keeps five fingerprints (taken after the
model's normal forms and alpha-normalisation, so renaming locals or
re-formatting changes none of them):

  attrs   attribute names in source order
  names   variable reads in source order
  stmts   the text of the simple statements in source order
  calls   (callee text, argument texts) in source order
  consts  integer literals used in arithmetic, slices, subscripts, comparisons

A function whose fingerprints differ from the reference is reported only when
the difference has one of these exact shapes -- each of them changes what the
function computes, none of them is produced by a behaviour-preserving edit:

  A  same attrs length, 1-2 positions differ, the new attribute name already
     exists in the reference tree (so it is a substitution, e.g. `.fields`
     for `.all_fields`, not a rename)                      -> attribute substituted
  B  same names length (attrs equal), 1-2 positions differ, both names are
     variables of the function                              -> operand substituted
  C  stmts == reference stmts minus exactly one statement that is a call or
     an assignment (logging excluded), nothing else changed -> statement dropped
  D  same consts length, exactly one differs (everything else equal)
                                                            -> constant changed
  E  same callees; one call has its reference arguments in another order
                                                            -> arguments swapped

Anything else (statements added, rewritten, moved; several things at once) is
not claimed.
"""
import ast
import json
import os

from .model import own_nodes, unparse

LOGGING = ('logger', 'logging', 'log')


def _simple_statements(fnode):
    out = []
    for n in own_nodes(fnode):
        if isinstance(n, (ast.Assign, ast.AugAssign, ast.AnnAssign, ast.Expr, ast.Return,
                          ast.Raise, ast.Delete, ast.Assert)):
            if isinstance(n, ast.Expr) and isinstance(n.value, ast.Constant):
                continue      # docstrings
            out.append(n)
    return out


def fingerprint(f):
    node = f.node
    attrs, names, calls, consts = [], [], [], []
    for n in own_nodes(node):
        if isinstance(n, ast.Attribute):
            attrs.append(n.attr)
        elif isinstance(n, ast.Name) and isinstance(n.ctx, ast.Load):
            names.append(n.id)
        elif isinstance(n, ast.Call):
            calls.append([unparse(n.func), [unparse(a) for a in n.args] +
                          ['%s=%s' % (k.arg, unparse(k.value)) for k in n.keywords]])
        elif isinstance(n, ast.Constant) and isinstance(n.value, int) and \
                not isinstance(n.value, bool):
            par = getattr(n, '_parent', None)
            gp = getattr(par, '_parent', None)
            if isinstance(par, (ast.BinOp, ast.Slice, ast.Compare, ast.UnaryOp)) or \
                    (isinstance(par, ast.Subscript) and par.slice is n) or \
                    isinstance(gp, ast.Slice):
                consts.append(n.value)
    stmts = [unparse(s) for s in _simple_statements(node)]
    kinds = [type(n).__name__ for n in own_nodes(node)
             if isinstance(n, (ast.If, ast.For, ast.While, ast.Try, ast.With))]
    return {'attrs': attrs, 'names': names, 'stmts': stmts, 'calls': calls, 'consts': consts,
            'compound': kinds}


def build(pm):
    out = {}

    def add(f):
        out[f.qualname] = fingerprint(f)
        for g in f.nested.values():
            add(g)
    for f in pm.functions.values():
        if f.parent is None:
            add(f)
    # attributes the repository's own classes define (methods, class attributes, self.x):
    # substituting one of these for another is never a re-spelling
    vocab = set()
    for c in pm.classes.values():
        vocab.update(c.methods)
        vocab.update(c.attrs)
        for m in c.methods.values():
            for n in own_nodes(m.node):
                if isinstance(n, ast.Attribute) and isinstance(n.ctx, ast.Store) and \
                        isinstance(n.value, ast.Name) and n.value.id == 'self':
                    vocab.add(n.attr)
    return {'functions': out, 'attr_vocabulary': sorted(vocab)}


def _diff_positions(a, b):
    return [i for i, (x, y) in enumerate(zip(a, b)) if x != y]


def compare(ref, cur, vocab, local_names, local_names_ref=frozenset()):
    """[(kind, detail)] for the recognised shapes; [] when unchanged or not
    claimed."""
    if ref == cur:
        return []
    out = []
    same = {k: ref[k] == cur[k] for k in ref}
    # A: attribute substituted
    if not same['attrs'] and len(ref['attrs']) == len(cur['attrs']) and same['compound'] and \
            same['names'] and len(ref['stmts']) == len(cur['stmts']):
        pos = _diff_positions(ref['attrs'], cur['attrs'])
        if 1 <= len(pos) <= 2 and all(cur['attrs'][i] in vocab and ref['attrs'][i] in vocab
                                      for i in pos) and \
                sorted(ref['attrs']) != sorted(cur['attrs']):   # not a mere reordering
            out.append(('attribute substituted', ', '.join(
                '.%s -> .%s' % (ref['attrs'][i], cur['attrs'][i]) for i in pos)))
            return out
    # B: operand substituted
    if not same['names'] and len(ref['names']) == len(cur['names']) and same['attrs'] and \
            same['compound'] and len(ref['stmts']) == len(cur['stmts']) and same['consts']:
        pos = _diff_positions(ref['names'], cur['names'])
        known = set(ref['names']) | local_names_ref
        if 1 <= len(pos) <= 2 and sorted(ref['names']) != sorted(cur['names']) and \
                all(cur['names'][i] in known and cur['names'][i] in local_names and
                    ref['names'][i] in local_names for i in pos):
            out.append(('operand substituted', ', '.join(
                '%s -> %s' % (ref['names'][i], cur['names'][i]) for i in pos)))
            return out
    # C: statement dropped
    if len(cur['stmts']) == len(ref['stmts']) - 1 and same['compound']:
        r = list(ref['stmts'])
        for i in range(len(r)):
            if r[:i] + r[i + 1:] == cur['stmts']:
                st = r[i]
                if not any(st.startswith(p) or ('.' + p + '.') in st or st.startswith('self.' + p)
                           for p in LOGGING) and not st.startswith(('assert ', 'pass')):
                    out.append(('statement dropped', st[:120]))
                return out
    # E: arguments swapped
    if not same['calls'] and len(ref['calls']) == len(cur['calls']) and same['attrs'] and \
            same['compound'] and same['consts'] and sorted(ref['names']) == sorted(cur['names']):
        swapped = []
        for (rf, ra), (cf, ca) in zip(ref['calls'], cur['calls']):
            if rf != cf:
                swapped = None
                break
            if ra != ca:
                if sorted(ra) == sorted(ca):
                    swapped.append('%s(%s) -> (%s)' % (rf, ', '.join(ra), ', '.join(ca)))
                elif ''.join(sorted(''.join(ra))) == ''.join(sorted(''.join(ca))):
                    # an enclosing call whose text contains the swapped inner call
                    continue
                else:
                    swapped = None
                    break
        if swapped:
            out.append(('arguments swapped', swapped[0][:200]))
            return out
    # D: constant changed
    if not same['consts'] and len(ref['consts']) == len(cur['consts']) and same['attrs'] and \
            same['names'] and same['compound'] and len(ref['stmts']) == len(cur['stmts']):
        pos = _diff_positions(ref['consts'], cur['consts'])
        if len(pos) == 1:
            out.append(('constant changed', '%r -> %r' % (ref['consts'][pos[0]],
                                                          cur['consts'][pos[0]])))
    return out


def load_reference(verif_root):
    p = os.path.join(verif_root, 'reference', 'expressions.json')
    if not os.path.exists(p):
        return None
    with open(p, encoding='utf-8') as fh:
        return json.load(fh)


def run(pm, ctx, rule, patterns, min_funcs=1):
    import re
    from .dataflow import defs
    from .model import AnalysisError
    ctx.rule(rule, 'the expressions of the functions the property is anchored in are those '
                   'confirmed on the reference tree: no attribute or variable substituted for '
                   'another, no call or assignment dropped, no arguments swapped, no integer '
                   'literal of an arithmetic/slice/comparison changed (other edits are not claimed)')
    verif = os.path.dirname(os.path.dirname(os.path.abspath(__file__)))
    ref = load_reference(verif)
    if ref is None:
        raise AnalysisError('anchor=reference/expressions.json (missing)')
    vocab = set(ref['attr_vocabulary'])
    pats = [re.compile(p) for p in patterns]
    todo = []

    def add(f):
        todo.append(f)
        for g in f.nested.values():
            add(g)
    for q, f in sorted(pm.functions.items()):
        if f.parent is None and any(p.search(q) for p in pats):
            add(f)
    n = 0
    for f in todo:
        r = ref['functions'].get(f.qualname)
        if r is None:
            continue
        n += 1
        cur = fingerprint(f)
        d = defs(f.node)
        local_names = set(d.values) | set(f.params)
        g = f.parent
        while g is not None:
            local_names |= set(defs(g.node).values) | set(g.params)
            g = g.parent
        probs = compare(r, cur, vocab, local_names, set(f.params))
        ctx.check(rule, not probs, '%s: expressions as confirmed' % f.short, f.loc,
                  msg='%s: %s (%s): the function computes something else than on the reference '
                      'tree' % (f.short, probs[0][0] if probs else '', probs[0][1] if probs else ''),
                  key='%s|%s|%s' % (rule, f.qualname, probs[0][0] if probs else 'expr'))
    ctx.extra['%s_functions' % rule] = n
    ctx.floor(rule, n, min_funcs, 'functions matched with the reference')
