"""Syntax-level normal forms applied to every module before the rules run.

Each rewrite maps two spellings that evaluate the same expressions in the same
order to one of them, so that a rule phrased over the AST (or over its text)
gives the same verdict for both.  They are applied to the in-memory AST only.

N1  string formatting: an f-string and ``'...%s...' % (a, b)`` (only ``%s``,
    ``%r``, ``%d`` without flags) become ``'...{}...'.format(a, b)``
N2  ``isinstance(x, A) or isinstance(x, B)``  ->  ``isinstance(x, (A, B))``
N3  ``k in d.keys()``  ->  ``k in d``   (also ``not in``; ``for k in d.keys()``)
N4  ``super(C, self)``  ->  ``super()``
N5  ``dict((k, v) for ...)`` -> ``{k: v for ...}``; ``set(x for ...)`` /
    ``list(x for ...)`` -> comprehensions; ``dict([...comprehension...])`` alike
N6  ``if a: (if b: X)`` with no else on either  ->  ``if a and b: X``
N7  ``else: (if ...)``  ->  ``elif``  (the AST is the same; nothing to do) and
    ``if c: A; return/raise``-tail forms are left to the path-condition engine
N8  ``getattr(x, 'name', None) is None`` is left alone (not the same as
    ``not hasattr``)
"""
import ast
import re

_SIMPLE_PCT = re.compile(r'%(?:(%)|([srd]))')


def _fmt_call(template, args, like):
    call = ast.Call(func=ast.Attribute(value=ast.Constant(value=template), attr='format',
                                       ctx=ast.Load()), args=args, keywords=[])
    ast.copy_location(call, like)
    ast.copy_location(call.func, like)
    ast.copy_location(call.func.value, like)
    for a in ast.walk(call):
        if not hasattr(a, 'lineno'):
            ast.copy_location(a, like)
    return call


def _joinedstr(node):
    """f'..{a}..{b!r}..' -> '..{}..{!r}..'.format(a, b); None when a format
    spec other than a plain one is used."""
    tmpl = []
    args = []
    for v in node.values:
        if isinstance(v, ast.Constant) and isinstance(v.value, str):
            tmpl.append(v.value.replace('{', '{{').replace('}', '}}'))
        elif isinstance(v, ast.FormattedValue):
            spec = ''
            if v.format_spec is not None:
                if len(v.format_spec.values) == 1 and \
                        isinstance(v.format_spec.values[0], ast.Constant):
                    spec = ':' + str(v.format_spec.values[0].value)
                else:
                    return None
            conv = {-1: '', 115: '!s', 114: '!r', 97: '!a'}.get(v.conversion, '')
            tmpl.append('{%s%s}' % (conv, spec))
            args.append(v.value)
        else:
            return None
    return _fmt_call(''.join(tmpl), args, node)


def _percent(node):
    """'..%s..%r..' % (a, b) -> '..{}..{!r}..'.format(a, b)."""
    if not (isinstance(node.left, ast.Constant) and isinstance(node.left.value, str)):
        return None
    s = node.left.value
    if '{' in s or '}' in s:
        s = s.replace('{', '{{').replace('}', '}}')
    # only %s %r %d %% allowed
    rest = _SIMPLE_PCT.sub('', s)
    if '%' in rest:
        return None
    n = 0

    def rep(m):
        nonlocal n
        if m.group(1):
            return '%'
        n += 1
        return {'s': '{}', 'r': '{!r}', 'd': '{:d}'}[m.group(2)]
    tmpl = _SIMPLE_PCT.sub(rep, s)
    if isinstance(node.right, ast.Tuple):
        args = list(node.right.elts)
    else:
        if n != 1:
            return None
        if isinstance(node.right, (ast.Dict, ast.Starred)):
            return None
        args = [node.right]
    if len(args) != n:
        return None
    return _fmt_call(tmpl, args, node)


class _Rewriter(ast.NodeTransformer):
    def __init__(self):
        self.n = 0

    # N1
    def visit_JoinedStr(self, node):
        self.generic_visit(node)
        new = _joinedstr(node)
        if new is not None:
            self.n += 1
            return new
        return node

    def visit_BinOp(self, node):
        self.generic_visit(node)
        if isinstance(node.op, ast.Mod):
            new = _percent(node)
            if new is not None:
                self.n += 1
                return new
        return node

    # N2
    def visit_BoolOp(self, node):
        self.generic_visit(node)
        if isinstance(node.op, ast.Or):
            out = []
            for v in node.values:
                prev = out[-1] if out else None
                if _is_isinstance(v) and prev is not None and _is_isinstance(prev) and \
                        ast.dump(prev.args[0]) == ast.dump(v.args[0]):
                    prev.args[1] = _merge_classes(prev.args[1], v.args[1])
                    self.n += 1
                else:
                    out.append(v)
            if len(out) == 1:
                return out[0]
            node.values = out
        return node

    # N3
    def visit_Compare(self, node):
        self.generic_visit(node)
        if len(node.ops) == 1 and isinstance(node.ops[0], (ast.In, ast.NotIn)):
            c = node.comparators[0]
            if _is_keys_call(c):
                node.comparators[0] = c.func.value
                self.n += 1
        return node

    def visit_For(self, node):
        self.generic_visit(node)
        if _is_keys_call(node.iter):
            node.iter = node.iter.func.value
            self.n += 1
        return node

    def visit_comprehension(self, node):
        self.generic_visit(node)
        if _is_keys_call(node.iter):
            node.iter = node.iter.func.value
            self.n += 1
        return node

    # N4 / N5
    def visit_Call(self, node):
        self.generic_visit(node)
        f = node.func
        if isinstance(f, ast.Name) and f.id == 'super' and len(node.args) == 2 and \
                isinstance(node.args[1], ast.Name) and node.args[1].id in ('self', 'cls'):
            node.args = []
            self.n += 1
            return node
        if isinstance(f, ast.Name) and f.id in ('dict', 'set', 'list') and len(node.args) == 1 \
                and not node.keywords:
            a = node.args[0]
            if isinstance(a, ast.ListComp) and f.id in ('dict', 'set'):
                a = ast.copy_location(ast.GeneratorExp(elt=a.elt, generators=a.generators), a)
            if isinstance(a, ast.GeneratorExp):
                new = None
                if f.id == 'dict' and isinstance(a.elt, ast.Tuple) and len(a.elt.elts) == 2:
                    new = ast.DictComp(key=a.elt.elts[0], value=a.elt.elts[1],
                                       generators=a.generators)
                elif f.id == 'set':
                    new = ast.SetComp(elt=a.elt, generators=a.generators)
                elif f.id == 'list':
                    new = ast.ListComp(elt=a.elt, generators=a.generators)
                if new is not None:
                    self.n += 1
                    return ast.copy_location(new, node)
        return node

    # N6
    def visit_If(self, node):
        self.generic_visit(node)
        while not node.orelse and len(node.body) == 1 and isinstance(node.body[0], ast.If) \
                and not node.body[0].orelse:
            inner = node.body[0]
            vals = []
            for t in (node.test, inner.test):
                if isinstance(t, ast.BoolOp) and isinstance(t.op, ast.And):
                    vals.extend(t.values)
                else:
                    vals.append(t)
            node.test = ast.copy_location(ast.BoolOp(op=ast.And(), values=vals), node.test)
            node.body = inner.body
            self.n += 1
        return node


def drop_dead_statements(tree):
    """N10 a `continue` that ends a loop body, N11 a bare `return` / `return
    None` that ends a function, N12 an if whose two arms are the same code."""
    n = 0
    for node in ast.walk(tree):
        if isinstance(node, (ast.For, ast.While, ast.AsyncFor)):
            while len(node.body) > 1 and isinstance(node.body[-1], ast.Continue):
                node.body.pop()
                n += 1
        if isinstance(node, (ast.FunctionDef, ast.AsyncFunctionDef)):
            while len(node.body) > 1 and isinstance(node.body[-1], ast.Return) and (
                    node.body[-1].value is None or (
                        isinstance(node.body[-1].value, ast.Constant) and
                        node.body[-1].value.value is None)):
                node.body.pop()
                n += 1
        for field in ('body', 'orelse', 'finalbody'):
            blk = getattr(node, field, None)
            if not isinstance(blk, list):
                continue
            for i, st in enumerate(blk):
                if isinstance(st, ast.If) and st.orelse and \
                        [ast.dump(x) for x in st.body] == [ast.dump(x) for x in st.orelse]:
                    blk[i:i + 1] = st.body
                    n += 1
                    break
    return n


def _is_isinstance(v):
    return isinstance(v, ast.Call) and isinstance(v.func, ast.Name) and \
        v.func.id == 'isinstance' and len(v.args) == 2 and not v.keywords


def _merge_classes(a, b):
    ea = list(a.elts) if isinstance(a, ast.Tuple) else [a]
    eb = list(b.elts) if isinstance(b, ast.Tuple) else [b]
    t = ast.Tuple(elts=ea + eb, ctx=ast.Load())
    return ast.copy_location(t, a)


def _is_keys_call(c):
    return isinstance(c, ast.Call) and isinstance(c.func, ast.Attribute) and \
        c.func.attr == 'keys' and not c.args and not c.keywords


def normalise(tree):
    r = _Rewriter()
    r.visit(tree)
    r.n += drop_dead_statements(tree)
    ast.fix_missing_locations(tree)
    return r.n
