G = 'stone/frontend/ir_generator.py'
A = 'stone/ir/api.py'
L = 'stone/frontend/lexer.py'
MUTANTS = [
    dict(id='revert-F21', expect='fire', rule='C11-R1', edits=[(A,
        "        self.annotation_types.sort(key=lambda annotation_type: annotation_type.name)\n", "")]),
    dict(id='revert-F13', expect='fire', rule='C11-R2', edits=[(G,
        "                if base_name in self._patch_data_by_canonical_name:\n                    # Keeping only one of them would silently drop fields, and\n                    # which one would depend on the order of the spec files.\n                    other, _ = self._patch_data_by_canonical_name[base_name]\n                    raise InvalidSpec(\n                        'Patch for %s already defined (%s:%d).' %\n                        (quote(item.name), other.path, other.lineno),\n                        item.lineno, item.path)\n", "")]),
    dict(id='routes-unsorted', expect='fire', rule='C11-R1', edits=[(A, "        self.routes.sort()\n", "")]),
    dict(id='normalize-before-filter', expect='fire', rule='C11-R1', edits=[(G,
        "        if self._routes is not None:\n            self._filter_namespaces_by_route_whitelist()\n\n        self.api.normalize()\n",
        "        self.api.normalize()\n        if self._routes is not None:\n            self._filter_namespaces_by_route_whitelist()\n")]),
    dict(id='seed-imports-sort-discarded', expect='fire', rule='C11-R3', edits=[(A,
        "        imported_namespaces.sort(key=lambda n: n.name)\n        return imported_namespaces", "        sorted(imported_namespaces, key=lambda n: n.name)\n        return imported_namespaces")]),
    dict(id='io-types-unsorted', expect='fire', rule='C11-R3', edits=[(A,
        "        return sorted(data_types, key=lambda dt: dt.name)", "        return list(data_types)")]),
    dict(id='populate-inside-file-loop', expect='fire', rule='C11-R4', edits=[(G,
        "            self._add_data_types_and_routes_to_api(namespace, partial_ast)\n", "            self._add_data_types_and_routes_to_api(namespace, partial_ast)\n            self._populate_type_attributes()\n")]),
    dict(id='env-per-file', expect='fire', rule='C11-R4', edits=[(G,
        "        if namespace_name in self._env_by_namespace:\n            env = self._env_by_namespace[namespace_name]\n        else:", "        if False:\n            env = self._env_by_namespace[namespace_name]\n        else:")]),
    dict(id='seed-rpar-begin-initial', expect='fire', rule='C11-R6', edits=[(L,
        "        token.lexer.pop_state()", "        token.lexer.begin('INITIAL')")]),
    dict(id='new-split-on-keyword', expect='fire', rule='C11-R5', edits=[('stone/cli.py',
        "            parts = stdin_text.split('namespace')", "            parts = stdin_text.split('struct ')")]),
    dict(id='benign-sorted-assign', expect='silent', edits=[(A,
        "        imported_namespaces.sort(key=lambda n: n.name)\n        return imported_namespaces", "        return sorted(imported_namespaces, key=lambda n: n.name)")]),
]
