"""Every confirmed sub-agent change under /verif/seeded/ as a mutant of the property
it was written against: the property's own check must fire on it."""
import json
import os

_ROOT = os.path.join(VERIF, 'seeded')  # noqa: F821  (VERIF is supplied by the loader)
MUTANTS = []
for _d in sorted(os.listdir(_ROOT)):
    _p = os.path.join(_ROOT, _d, 'patch.diff')
    if os.path.exists(_p):
        MUTANTS.append(dict(id='seeded-' + _d, prop=_d[:3], expect='fire',
                            patch=os.path.join('seeded', _d, 'patch.diff'), edits=[]))
