"""Constant folding of literal expressions (numbers, strings, tuples, dicts,
arithmetic).  Never evaluates names other than those supplied in ``env``."""
import ast
import operator

_BIN = {ast.Add: operator.add, ast.Sub: operator.sub, ast.Mult: operator.mul,
        ast.Div: operator.truediv, ast.FloorDiv: operator.floordiv, ast.Mod: operator.mod,
        ast.Pow: operator.pow, ast.LShift: operator.lshift, ast.RShift: operator.rshift,
        ast.BitOr: operator.or_, ast.BitAnd: operator.and_}


class NotConstant(Exception):
    pass


def fold(node, env=None):
    env = env or {}
    if isinstance(node, ast.Constant):
        return node.value
    if isinstance(node, ast.UnaryOp):
        v = fold(node.operand, env)
        if isinstance(node.op, ast.USub):
            return -v
        if isinstance(node.op, ast.UAdd):
            return +v
        if isinstance(node.op, ast.Not):
            return not v
    if isinstance(node, ast.BinOp) and type(node.op) in _BIN:
        l, r = fold(node.left, env), fold(node.right, env)
        if isinstance(node.op, ast.Pow) and isinstance(r, (int, float)) and abs(r) > 4096:
            raise NotConstant('exponent too large')
        return _BIN[type(node.op)](l, r)
    if isinstance(node, (ast.Tuple, ast.List)):
        vals = [fold(e, env) for e in node.elts]
        return tuple(vals) if isinstance(node, ast.Tuple) else vals
    if isinstance(node, ast.Set):
        return {fold(e, env) for e in node.elts}
    if isinstance(node, ast.Dict):
        return {fold(k, env): fold(v, env) for k, v in zip(node.keys, node.values)}
    if isinstance(node, ast.Name) and node.id in env:
        return env[node.id]
    raise NotConstant(ast.dump(node)[:80])


def try_fold(node, env=None, default=None):
    try:
        return fold(node, env)
    except (NotConstant, TypeError, ValueError, ZeroDivisionError, OverflowError):
        return default
