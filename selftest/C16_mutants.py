JH = 'stone/backends/js_helpers.py'
TH = 'stone/backends/tsd_helpers.py'
JC = 'stone/backends/js_client.py'
JT = 'stone/backends/js_types.py'
TT = 'stone/backends/tsd_types.py'
TC = 'stone/backends/tsd_client.py'
MUTANTS = [
    dict(id='table-loses-timestamp', expect='fire', rule='C16-R1', edits=[(TH, "    Timestamp: 'Timestamp',\n", "")]),
    dict(id='js-table-loses-uint64', expect='fire', rule='C16-R1', edits=[(JH, "    UInt64: 'number',\n", "")]),
    dict(id='tsd-alias-not-by-name', expect='fire', rule='C16-R1', edits=[(TH,
        "    if is_user_defined_type(data_type) or is_alias(data_type):\n        if data_type.namespace == inside_namespace:", "    if is_user_defined_type(data_type):\n        if data_type.namespace == inside_namespace:")]),
    dict(id='tsd-dispatch-no-alias', expect='fire', rule='C16-R1', edits=[(TT,
        "        if is_alias(data_type):\n            self._generate_alias_type(data_type)\n        elif is_struct_type(data_type):", "        if is_struct_type(data_type):")]),
    dict(id='ts-optional-only-nullable', expect='fire', rule='C16-R2', edits=[(TT,
        "                optional = nullable or field.has_default", "                optional = nullable")]),
    dict(id='seed-js-unwrap-order', expect='fire', rule='C16-R2', edits=[(JT,
        "            field_type, nullable, _ = unwrap(field.data_type)", "            field_type, nullable = unwrap_nullable(field.data_type)\n            field_type, _ = unwrap_aliases(field_type)")]),
    dict(id='attrs-in-route-order', expect='fire', rule='C16-R3', edits=[(JC,
        "                for field in route_schema.fields:\n                    additional_args.append(fmt_obj(route.attrs[field.name]))", "                for name in route.attrs:\n                    additional_args.append(fmt_obj(route.attrs[name]))")]),
    dict(id='void-arg-passes-arg', expect='fire', rule='C16-R3', edits=[(JC,
        "                        \"return this.request('{}', null, {}{});\".format(", "                        \"return this.request('{}', arg, {}{});\".format(")]),
    dict(id='url-version-suffix-from-2', expect='fire', rule='C16-R3', edits=[(JH,
        "    if route_version != 1:\n        return '{}/{}_v{}'", "    if route_version > 2:\n        return '{}/{}_v{}'")]),
    dict(id='seed-fmt-obj-naive', expect='fire', rule='C16-R3', edits=[(JH,
        "        return repr(o).lstrip('u')", "        return \"'{}'\".format(o)")]),
    dict(id='tsd-client-first-namespace', expect='fire', rule='C16-R3', edits=[(TC,
        "            for namespace in api.namespaces.values():\n                # first check for route name conflict", "            for namespace in list(api.namespaces.values())[:1]:\n                # first check for route name conflict")]),
    dict(id='js-types-skip-unions', expect='fire', rule='C16-R4', edits=[(JT,
        "                for data_type in namespace.data_types:\n                    self._generate_type(data_type, extra_args.get(data_type, []))", "                for data_type in namespace.data_types:\n                    if not is_struct_type(data_type):\n                        continue\n                    self._generate_type(data_type, extra_args.get(data_type, []))")]),
    dict(id='seed-tsd-skip-ignores-aliases', expect='fire', rule='C16-R4', edits=[(TT,
        "        if all([len(get_data_types_for_namespace(ns)) == 0 for ns in namespace_list]):", "        if all([len(ns.data_types) == 0 for ns in namespace_list]):")]),
    dict(id='tsd-types-no-aliases', expect='fire', rule='C16-R4', edits=[(TH,
        "    return namespace.data_types + namespace.aliases", "    return namespace.data_types")]),
    dict(id='benign-jsdoc-text', expect='silent', edits=[(JT,
        "        self.emit(' * @property {%s} .tag - Tag identifying the union variant.' % jsdoc_tag_union)", "        self.emit(' * @property {%s} .tag - Tag naming the union variant.' % jsdoc_tag_union)")]),
    # --- generator totality (C16-R5)
    dict(id='tsd-union-falls-into-struct-emitter', expect='fire', rule='C16-R5', edits=[(TT,
        "        elif is_struct_type(data_type):\n            self._generate_struct_type(data_type, indent_spaces, extra_args)\n        elif is_union_type(data_type):\n            self._generate_union_type(data_type, indent_spaces)",
        "        elif is_union_type(data_type) and data_type.all_fields:\n            self._generate_union_type(data_type, indent_spaces)\n        else:\n            self._generate_struct_type(data_type, indent_spaces, extra_args)")]),
    dict(id='tsd-fmt-tag-loses-val', expect='fire', rule='C16-R5', edits=[(TH,
        "    elif tag == 'val':", "    elif tag == 'value':")]),
    dict(id='js-new-spec-dependent-raise', expect='fire', rule='C16-R5', edits=[(JT,
        "    def _generate_union(self, union_type):", "    def _generate_union(self, union_type):\n        if not union_type.all_fields:\n            raise ValueError('empty union')")]),
]
