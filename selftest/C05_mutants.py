SER = 'stone/backends/python_rsrc/stone_serializers.py'
BASE = 'stone/backends/python_rsrc/stone_base.py'
PT = 'stone/backends/python_types.py'
MUTANTS = [
    dict(id='ru-default-stored-as-unset', expect='fire', rule='C05-RU', edits=[(BASE,
        "        setattr(instance, self.name, value)\n", "        if value == self.default:\n            value = NOT_SET\n        setattr(instance, self.name, value)\n")]),
    dict(id='union-nests-structs', expect='fire', rule='C05-R1', edits=[(SER,
        "            if isinstance(field_validator, bv.Struct) \\\n                    and not isinstance(field_validator, bv.StructTree):", "            if False:")]),
    dict(id='nested-under-value-key', expect='fire', rule='C05-R1', edits=[(SER,
        "                    (value._tag, encoded_val),", "                    ('value', encoded_val),")]),
    dict(id='void-primitive-false', expect='fire', rule='C05-R2', edits=[(SER,
        "        if isinstance(validator, bv.Void):\n            return None\n        elif isinstance(validator, bv.Timestamp):", "        if isinstance(validator, bv.Void):\n            return False\n        elif isinstance(validator, bv.Timestamp):")]),
    dict(id='timestamp-isoformat', expect='fire', rule='C05-R2', edits=[(SER,
        "            return _strftime(value, validator.format)", "            return value.isoformat()")]),
    dict(id='map-as-pairs', expect='fire', rule='C05-R2', edits=[(SER,
        "        return {\n            self.encode_sub(validator.key_validator, key):\n                self.encode_sub(validator.value_validator, value) for\n            key, value in validated_value.items()\n        }",
        "        return [\n            [self.encode_sub(validator.key_validator, key),\n                self.encode_sub(validator.value_validator, value)] for\n            key, value in validated_value.items()\n        ]")]),
    dict(id='struct-tree-tag-last', expect='fire', rule='C05-R3', edits=[(SER,
        "            d['.tag'] = tags[0]\n            d.update(self.encode_struct(subtype, value))", "            d.update(self.encode_struct(subtype, value))\n            d['.tag'] = tags[0]")]),
    dict(id='explicit-null-written', expect='fire', rule='C05-R3', edits=[(SER,
        "            if field_value is not None \\\n                    and getattr(value, value_key) is not bb.NOT_SET:", "            if getattr(value, value_key) is not bb.NOT_SET or field_value is None:")]),
    dict(id='seed-chain-only-if-parent-has-fields', expect='fire', rule='C05-R4', edits=[(PT,
        "                if caller_in_parent:\n                    before = '{0}.{2} = {1}.{2} + '.format(", "                if caller_in_parent and data_type.parent_type.fields:\n                    before = '{0}.{2} = {1}.{2} + '.format(")]),
    dict(id='public-chain-needs-caller', expect='fire', rule='C05-R4', edits=[(PT,
        "            caller_in_parent = data_type.parent_type and (is_public or omitted_caller\n                                                         in parent_omitted_callers)\n\n            # generate `_all_field_names_`",
        "            caller_in_parent = data_type.parent_type and (omitted_caller\n                                                         in parent_omitted_callers)\n\n            # generate `_all_field_names_`")]),
    dict(id='benign-doc-unrelated-edit', expect='silent', edits=[('docs/json_serializer.rst',
        "This is convenient for humans manually entering the argument", "This is handy for humans manually entering the argument")]),
]
