#!/venv/bin/python
"""Regenerate MANIFEST.json from the rule modules' metadata."""
import importlib
import json
import os
import sys

HERE = os.path.dirname(os.path.dirname(os.path.abspath(__file__)))
sys.path.insert(0, HERE)
sys.dont_write_bytecode = True

TECHNIQUE = {
    'C01': 'static analysis: inventory of error-reporting sites against a reference table, '
           'pass-sequence and sibling-agreement rules over ast path conditions, typestate of '
           'symbol environments (vacuous-guard detection), parser-state reset rule, spec '
           'grammar and lexer tables extracted from docstrings (well-formedness, p[k] bounds, '
           'LALR witness sentence / first-token witness text against the reference tables)',
    'C02': 'static analysis: registry typestate and ownership (who writes which registry), '
           'field-order predicates, falsy-value-confusion lint over the IR and frontend',
    'C03': 'static analysis: exception-escape effect analysis over the call graph (least '
           'fixpoint, try/except filtering), implicit-raise idioms, class-lattice dispatch '
           'exhaustiveness, environment and registry typestate, class test before partial '
           'attributes of heterogeneous grammar lists, lexer state-stack guard, callee-assert '
           'precondition at every call site',
    'C04': 'static analysis: sibling agreement of encoder/decoder dispatch partitions over the '
           'validator class lattice, inverse primitive pairs, imported validator-profile rules',
    'C05': 'static analysis: encoder shape partition (class lattice + path conditions) compared '
           'with a table transcribed from docs/json_serializer.rst; slot-ownership rule',
    'C06': 'static analysis: exception-escape analysis of the decoder, guard dominance of '
           'container uses of the untrusted document, must-pass-through required-field check '
           '(path enumeration)',
    'C07': 'static analysis: path-condition lint (rejections of unknown material only under '
           'strict, fallbacks only under lenient and catch-all), validator override inventory',
    'C08': 'static analysis: constraint-profile agreement between ir.*.check and bv.*.validate, '
           'parameter forwarding and Nullable wrap in the generated validator constructors',
    'C09': 'static analysis: emission-order (define-before-use) over generator call sequences, '
           'generated-name agreement, constructor-constraint relations compiler/runtime, '
           'generator totality by class-lattice typing of IR consumers',
    'C10': 'static analysis: accepted-literal profile agreement compiler/runtime, example '
           'flattening partition, aliasing rule for stored examples, refusal-guard exactness',
    'C11': 'static analysis: order-taint dataflow in the frontend, registry normalisation '
           'inventory, phase separation of population passes, lexer state pairing and strip sets',
    'C12': 'static analysis: order-taint dataflow (unordered collections to emission sinks) with '
           'return/attribute/parameter/container summaries; per-run state reset inventory',
    'C13': 'static analysis: ownership of per-permission tables, redaction-hook '
           'must-pass-through, reaching definitions of the validator handed to the hook, '
           'search-loop exit rule, class-lattice exhaustiveness of redactor kinds',
    'C14': 'static analysis: sibling agreement of signature / construction / constructor field '
           'order, generated-name agreement (qualifier and class name from one object, import '
           'condition covers every namespace named, suffixed method names in the conflict '
           'check), generator totality by class-lattice typing',
    'C15': 'static analysis: sibling agreement between stub and runtime emitters per declaration '
           'kind, type-mapping exhaustiveness, import registration, generator totality',
    'C16': 'static analysis: dispatch exhaustiveness and truth tables of the JS/TS emitters, '
           'sibling agreement on namespace emptiness, generator totality by class-lattice typing',
    'C17': 'static analysis: class-lattice typing of the Swift/ObjC backends and their Jinja '
           'templates (attribute existence, dispatch totality, template binding and arity), '
           'escaping dataflow, bracket pairing by path enumeration',
    'C18': 'static analysis: write-sink containment by reaching definitions and guard '
           'dominance, buffer ownership, manifest-mode reader inventory, every-path text emission',
    'C19': 'static analysis: LALR(1) table inspection of the filter grammar (thorough tier), '
           'filter grammar / lexer tables against the reference by witness sentence and witness '
           'text, evaluator truth tables, pruning-site pairing, regex-AST rule for lexer literals',
    'C20': 'static analysis: traversal coverage of reference-bearing attributes over the IR '
           'class lattice, registry rewrite inventory, route identity encode/decode pairing',
}

DRIFT_SUFFIX = ('; all over a canonicalised program model (syntax normal forms, virtual inlining '
                'of helpers the confirmed tree does not have, alpha-normalised locals); cross-check '
                'through time against reference tables of the confirmed tree: effect-condition '
                'drift (path formula of every raise / return / assignment / call compared by '
                'truth table over the leaf tests), expression drift, interface drift (constants '
                'by folded value, regexes by witness text, defaults, special methods, caching '
                'decorators), mutation drift, order drift (update/read pairs of one variable), '
                'use-def and container-kind drift (reaching definitions), memo-key completeness, '
                'ownership by call-graph closure')

NOT_BUILT = 'check not built yet (see DESIGN.md section 4 for the planned structural rules)'
NA = {}

props = [json.loads(l) for l in open(os.path.join(HERE, 'properties.jsonl'))]
checks, na = [], []
for p in props:
    pid = p['id']
    path = os.path.join(HERE, 'stonelint', 'rules', pid + '.py')
    if not os.path.exists(path) or pid in NA:
        na.append({'property_id': pid, 'reason': NA.get(pid, NOT_BUILT)})
        continue
    mod = importlib.import_module('stonelint.rules.' + pid)
    meta = getattr(mod, 'MANIFEST', {})
    checks.append({
        'property_id': pid,
        'quick_cmd': './check %s --tier quick' % pid,
        'thorough_cmd': './check %s --tier thorough' % pid,
        'evidence_file': '/verif/evidence/%s.json' % pid,
        'replay_cmd_template': './check %s --replay {path}' % pid,
        'engine': 'stonelint',
        'level_claimed': {
            'category': 'other',
            'text': meta.get('level_text') or (
                'Static analysis (ast, structured path conditions, call graph) of the current '
                'working tree: decides the structural necessary conditions of the property named '
                'in DESIGN.md section 4/%s on every path of the source, not the runtime behaviour '
                'itself.' % pid),
            'design_ref': 'DESIGN.md section 4/%s' % pid,
        },
        'level_note': meta.get('level_note') or '; '.join(mod.ASSUMPTIONS),
        'technique': (meta.get('technique') or TECHNIQUE[pid]) + DRIFT_SUFFIX,
    })

manifest = {
    'version': 1,
    'setup_cmd': '/venv/bin/python /verif/check --help > /dev/null',
    'hooks': {
        'guard': 'STONE_VERIF',
        'enable': 'none needed: the checks parse /repo\'s working tree with ast; nothing in '
                  '/repo is instrumented and no hook commits exist',
        'baseline_off_cmd': 'cd /repo && /venv/bin/python -m pytest -ra -q -p no:cacheprovider '
                            '--timeout=900 --continue-on-collection-errors',
        'source_commits': [],
        'add_only': True,
    },
    'engines': [{
        'name': 'stonelint',
        'path': '/verif/stonelint',
        'serves_properties': [c['property_id'] for c in checks],
        'kind_free_text': 'repository-specific static analyser written for dropbox/stone: ast '
                          'program model, class-lattice partitions, structured path conditions, '
                          'call graph, exception-escape and order-taint dataflow, sibling '
                          'agreement, LALR table inspection',
    }],
    'checks': checks,
    'not_applicable': na,
    'notes': 'All checks are static: they never import stone from /repo, compile a spec or run '
             'generated code. Exit 2 + ANALYSIS-ERROR means the analysis could not decide (e.g. a '
             'vanished anchor). Known findings are listed in /verif/known_findings.json.',
}
with open(os.path.join(HERE, 'MANIFEST.json'), 'w') as f:
    json.dump(manifest, f, indent=1)
print('MANIFEST: %d checks, %d not_applicable' % (len(checks), len(na)))
