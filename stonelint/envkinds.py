"""Typestate of values looked up in the frontend's symbol environments.

``IRGenerator`` keeps one ``Environment`` (a dict) per namespace that maps a
name to *heterogeneous* things: built-in type classes, Struct/Union/Alias
objects, annotations, annotation types, routes-by-version tables and the
environments of imported namespaces.  Any use of such a value that only some
kinds support (attribute access, ``in``, subscripting) must be dominated by a
test that excludes the other kinds -- otherwise a spec that puts the "wrong"
kind of symbol there raises AttributeError/TypeError instead of InvalidSpec
(C03), and a use of the value *as a type* without such a test accepts
non-types (C01).

Kinds:  cls | inst:<IR class> | AnnotationBuiltin | CustomAnnotation |
        AnnotationType | ApiRoutesByVersion | Environment
"""
import ast

from .dataflow import defs
from .lattice import ir_family
from .model import AnalysisError, ClassInfo, call_name, own_nodes, unparse
from .pathcond import path_info

GEN = 'stone.frontend.ir_generator'
ENV_NAMES = ('env', 'env_to_check', 'annotation_type_env', 'imported_env')
DICT_ATTRS = {'get', 'items', 'keys', 'values', 'copy', 'update', 'pop', 'setdefault',
              'namespace_name'}


class EnvKinds:
    def __init__(self, pm):
        self.pm = pm
        self.irf = ir_family(pm)
        self.inst = ['inst:' + c for c in self.irf.concrete]
        self.env_value_kinds = frozenset(
            ['cls', 'inst:Struct', 'inst:Union', 'inst:Alias', 'AnnotationBuiltin',
             'CustomAnnotation', 'AnnotationType', 'ApiRoutesByVersion', 'Environment'])
        self.all_kinds = frozenset(list(self.env_value_kinds) + self.inst)
        self._attrs = {}
        self._param_cache = {}
        self._callsites = None
        self._verify_stores()

    # ------------------------------------------------------------------
    def _verify_stores(self):
        """The kinds table is valid only while these are all the stores into an
        environment."""
        seen = set()
        for f in self.pm.funcs_in(GEN):
            for n in own_nodes(f.node):
                if isinstance(n, ast.Assign) and isinstance(n.targets[0], ast.Subscript) and \
                        isinstance(n.targets[0].value, ast.Name) and \
                        n.targets[0].value.id in ENV_NAMES:
                    seen.add(unparse(n.value))
        known = {'alias', 'annotation', 'annotation_type', 'api_type', 'ApiRoutesByVersion()',
                 'imported_env'}
        extra = seen - known
        if extra:
            raise AnalysisError('anchor=%s (environment store of an unclassified kind: %s)' % (
                GEN, sorted(extra)))
        self.store_exprs = seen

    def class_for_kind(self, k):
        pm = self.pm
        if k.startswith('inst:'):
            return self.irf.classes[k[5:]]
        return {
            'AnnotationBuiltin': pm.cls('stone.ir.data_types.Annotation'),
            'CustomAnnotation': pm.cls('stone.ir.data_types.CustomAnnotation'),
            'AnnotationType': pm.cls('stone.ir.data_types.AnnotationType'),
            'ApiRoutesByVersion': pm.cls('stone.ir.api.ApiRoutesByVersion'),
            'Environment': pm.cls(GEN + '.Environment'),
        }.get(k)

    def attrs_of(self, k):
        """Attribute names a value of kind k certainly has."""
        if k in self._attrs:
            return self._attrs[k]
        pm = self.pm
        out = set()
        if k == 'cls':
            for c in self.irf.classes.values():
                pass
            # attributes every DataType *class* object has
            root = self.irf.root
            out |= {'__name__', '__init__', '__class__', '__doc__', '__module__'}
            out |= set(root.methods) | set(root.attrs)
        else:
            c = self.class_for_kind(k)
            classes = [c]
            if k == 'AnnotationBuiltin':
                # any of the builtin annotation classes: attributes common to all
                subs = [s for s in pm.subclasses(c, strict=True)
                        if s.name != 'CustomAnnotation']
                common = None
                for s in subs:
                    a = self._class_attrs(s)
                    common = a if common is None else (common & a)
                out |= common or set()
            else:
                out |= self._class_attrs(c)
            if k == 'Environment':
                out |= DICT_ATTRS
        self._attrs[k] = out
        return out

    def _class_attrs(self, c):
        out = set()
        for k in self.pm.mro(c):
            out |= set(k.methods) | set(k.attrs)
            for m in k.methods.values():
                for n in own_nodes(m.node):
                    if isinstance(n, (ast.Assign, ast.AnnAssign, ast.AugAssign)):
                        ts = n.targets if isinstance(n, ast.Assign) else [n.target]
                        for t in ts:
                            if isinstance(t, ast.Attribute) and isinstance(t.value, ast.Name) \
                                    and t.value.id == 'self':
                                out.add(t.attr)
        return out

    # ------------------------------------------------------------------
    def _filter(self, kinds, module, e, pol, subject):
        """Refine ``kinds`` of ``subject`` (source text) by one path atom."""
        if isinstance(e, ast.Call):
            nm = call_name(e)
            if nm == 'isinstance' and len(e.args) == 2 and unparse(e.args[0]) == subject:
                c = e.args[1]
                elts = c.elts if isinstance(c, ast.Tuple) else [c]
                keep = set()
                exact = True
                for x in elts:
                    r = self.pm.resolve_expr(module, x)
                    if not isinstance(r, ClassInfo):
                        return kinds
                    for k in kinds:
                        if k == 'cls':
                            continue
                        kc = self.class_for_kind(k)
                        if kc is None:
                            continue
                        if self.pm.is_subclass(kc, r):
                            keep.add(k)
                        elif k == 'AnnotationBuiltin' and self.pm.is_subclass(r, kc):
                            keep.add(k)   # coarse kind: may or may not match
                            exact = False
                if pol:
                    return frozenset(keep)
                # negative: remove kinds that certainly match
                certain = {k for k in keep if not (k == 'AnnotationBuiltin' and not exact)}
                return frozenset(kinds - certain)
            if nm == 'isclass' and e.args and unparse(e.args[0]) == subject:
                return frozenset({'cls'} & kinds) if pol else frozenset(kinds - {'cls'})
            if nm in ('is_struct_type', 'is_union_type', 'is_alias', 'is_user_defined_type') and \
                    e.args and unparse(e.args[0]) == subject:
                target = {'is_struct_type': {'inst:Struct'}, 'is_union_type': {'inst:Union'},
                          'is_alias': {'inst:Alias'},
                          'is_user_defined_type': {'inst:Struct', 'inst:Union'}}[nm]
                return frozenset(kinds & target) if pol else frozenset(kinds - target)
        if isinstance(e, ast.Compare) and len(e.ops) == 1 and isinstance(e.ops[0], ast.Is) and \
                unparse(e.left) == subject:
            r = self.pm.resolve_expr(module, e.comparators[0])
            if isinstance(r, ClassInfo) and pol:
                return frozenset({'cls'} & kinds)
        return kinds

    def kinds_at(self, func, node, expr):
        """Possible kinds of env-derived expression ``expr`` evaluated at
        ``node`` inside ``func``; None when expr is not env-derived."""
        base = self._base_kinds(func, expr, node)
        if base is None:
            return None
        subject = unparse(expr)
        subjects = [subject]
        d = defs(func.node)
        for nm, vals in d.values.items():
            # a local bound once to the very same lookup is another spelling
            if len(vals) == 1 and vals[0][0] == 'assign' and vals[0][1] is not None and \
                    unparse(vals[0][1]) == subject and nm not in d.params:
                subjects.append(nm)
        pi = path_info(func.node)
        kinds = base
        for e, pol in pi.at(node):
            for sj in subjects:
                kinds = self._filter(kinds, func.module, e, pol, sj)
        return kinds

    def _base_kinds(self, func, expr, at, depth=0):
        if depth > 3:
            return None
        # env[...]
        if isinstance(expr, ast.Subscript) and isinstance(expr.value, ast.Name) and \
                expr.value.id in ENV_NAMES:
            return self.env_value_kinds
        # env[a][b]
        if isinstance(expr, ast.Subscript) and isinstance(expr.value, ast.Subscript):
            inner = self._base_kinds(func, expr.value, at, depth + 1)
            if inner is not None:
                return self.env_value_kinds
        # X.data_type where X env-derived: any IR instance
        if isinstance(expr, ast.Attribute) and expr.attr in ('data_type', 'parent_type'):
            inner = self._base_kinds(func, expr.value, at, depth + 1)
            if inner is not None:
                return frozenset(self.inst)
        if isinstance(expr, ast.Call) and call_name(expr) in (
                'unwrap_aliases', 'unwrap_nullable', 'unwrap') and expr.args:
            inner = self._base_kinds(func, expr.args[0], at, depth + 1)
            if inner is not None:
                return frozenset(self.inst)
        if isinstance(expr, ast.Name) and expr.id not in ENV_NAMES:
            d = defs(func.node)
            vals = d.values.get(expr.id, [])
            if expr.id in d.params and not vals:
                return self._param_kinds(func, expr.id, depth)
            if not vals or expr.id in d.params:
                return None
            out = set()
            pi = path_info(func.node)
            for kind, v, stmt in vals:
                if kind == 'assign-unpack:0' and isinstance(v, ast.Call) and \
                        call_name(v) in ('unwrap_aliases', 'unwrap_nullable', 'unwrap'):
                    kind = 'assign'
                if kind != 'assign' or v is None:
                    return None
                if isinstance(v, ast.Call) and v.args and isinstance(v.args[0], ast.Name) and \
                        v.args[0].id == expr.id:
                    out |= set(self.inst)     # x, _ = unwrap_*(x)
                    continue
                b = self._base_kinds(func, v, stmt, depth + 1)
                if b is None:
                    return None
                # refine by guards on the RHS expression at the assignment
                subject = unparse(v)
                ks = b
                for e, pol in pi.at(stmt):
                    ks = self._filter(ks, func.module, e, pol, subject)
                out |= ks
            return frozenset(out)
        return None

    def _param_kinds(self, func, pname, depth):
        """Kinds of a parameter all of whose call-site arguments (within the
        module) are env-derived: the union of the arguments' kinds at the call
        sites (with the callers' guards applied)."""
        if depth > 1:
            return None
        ck = (func.qualname, pname)
        if ck in self._param_cache:
            return self._param_cache[ck]
        self._param_cache[ck] = None   # recursion guard
        r = self._param_kinds_uncached(func, pname, depth)
        self._param_cache[ck] = r
        return r

    def _param_kinds_uncached(self, func, pname, depth):
        idx = func.params.index(pname)
        if func.cls is not None and not func.is_staticmethod:
            idx -= 1
        if self._callsites is None:
            self._callsites = {}
            for g in self.pm.funcs_in(GEN):
                for c in own_nodes(g.node):
                    if isinstance(c, ast.Call) and call_name(c):
                        self._callsites.setdefault(call_name(c), []).append((g, c))
        sites = self._callsites.get(func.name, [])
        if not sites:
            return None
        out = set()
        for g, c in sites:
            if idx < 0 or idx >= len(c.args):
                return None
            k = self.kinds_at(g, c, c.args[idx])
            if k is None:
                return None
            out |= k
        return frozenset(out)

    def env_name_uses(self, func):
        """Uses of a name of ENV_NAMES *as a container* where, on some path, its
        last binding is an environment lookup (``env = env[ns]``): the value
        must have been narrowed to Environment.  Returns
        [(node, name, offending_kinds)]."""
        from .paths import enumerate_paths
        from .model import stmt_of
        d = defs(func.node)
        rebinding = {}
        for nm in ENV_NAMES:
            for kind, v, stmt in d.values.get(nm, []):
                if kind == 'assign' and isinstance(v, ast.Subscript) and \
                        isinstance(v.value, ast.Name) and v.value.id in ENV_NAMES:
                    rebinding.setdefault(nm, []).append(stmt)
        if not rebinding:
            return []
        out = []
        paths = None
        for n in own_nodes(func.node):
            cont = None
            if isinstance(n, ast.Compare) and len(n.ops) == 1 and \
                    isinstance(n.ops[0], (ast.In, ast.NotIn)) and \
                    isinstance(n.comparators[0], ast.Name):
                cont = n.comparators[0]
            elif isinstance(n, ast.Subscript) and isinstance(n.value, ast.Name) and \
                    isinstance(n.ctx, ast.Load):
                cont = n.value
            if cont is None or cont.id not in rebinding:
                continue
            if paths is None:
                paths = [p for p in enumerate_paths(func.node) if _feasible(p)]
            st = stmt_of(n)
            bad = set()
            for p in paths:
                if st not in p.stmts:
                    continue
                val, atoms = p.atoms_after_last_assign(cont.id, upto=st)
                if val is None or not (isinstance(val, ast.Subscript) and
                                       isinstance(val.value, ast.Name) and
                                       val.value.id in ENV_NAMES):
                    continue
                # the rebinding statement may be the very statement of the use
                # (env = env[x] reads the old env): skip when n is inside it
                if any(st is rb for rb in rebinding[cont.id]):
                    continue
                kinds = self.env_value_kinds
                # guards on the looked-up expression itself before the binding
                rhs = unparse(val)
                for ev in p.events:
                    if ev[0] == 'stmt':
                        if isinstance(ev[1], ast.Assign) and ev[1].value is val:
                            break
                    else:
                        kinds = self._filter(kinds, func.module, ev[1], ev[2], rhs)
                for e, pol in atoms:
                    kinds = self._filter(kinds, func.module, e, pol, cont.id)
                bad |= set(kinds) - {'Environment'}
            if bad:
                out.append((n, cont.id, sorted(bad)))
        return out

    # ------------------------------------------------------------------
    def uses(self, func):
        """Yield (node, expr, op, needed) for every kind-sensitive use of an
        env-derived expression in ``func``: op in {'attr:<name>', 'in',
        'subscript'}."""
        for n in own_nodes(func.node, include_nested=True):
            if isinstance(n, ast.Attribute) and isinstance(n.ctx, ast.Load):
                yield n, n.value, 'attr:' + n.attr
            elif isinstance(n, ast.Compare) and len(n.ops) == 1 and \
                    isinstance(n.ops[0], (ast.In, ast.NotIn)):
                yield n, n.comparators[0], 'in'
            elif isinstance(n, ast.Subscript) and isinstance(n.ctx, ast.Load):
                yield n, n.value, 'subscript'

    def unsafe_uses(self, func):
        """[(node, expr_text, op, offending_kinds)]"""
        out = []
        for node, expr, op in self.uses(func):
            if isinstance(expr, ast.Name) and expr.id in ENV_NAMES:
                continue   # the environment dict itself
            kinds = self.kinds_at(func, node, expr)
            if kinds is None:
                continue
            if op.startswith('attr:'):
                a = op[5:]
                bad = sorted(k for k in kinds if a not in self.attrs_of(k))
            else:
                bad = sorted(k for k in kinds if k != 'Environment')
            if bad:
                # path-sensitive second opinion (boolean flags, env stores)
                pk = path_sensitive_kinds(self, func, node, expr)
                if pk is not None:
                    if op.startswith('attr:'):
                        bad = sorted(k for k in pk if op[5:] not in self.attrs_of(k))
                    else:
                        bad = sorted(k for k in pk if k != 'Environment')
            if bad:
                out.append((node, unparse(expr), op, bad))
        return out


# ----------------------------------------------------------------------
# path-sensitive refinement (boolean flag locals, stores into the environment)

def _feasible(path):
    """Reject paths that contradict a constant boolean flag assignment."""
    flags = {}
    for ev in path.events:
        if ev[0] == 'stmt':
            s = ev[1]
            if isinstance(s, ast.Assign) and len(s.targets) == 1 and \
                    isinstance(s.targets[0], ast.Name):
                if isinstance(s.value, ast.Constant) and isinstance(s.value.value, bool):
                    flags[s.targets[0].id] = s.value.value
                else:
                    flags.pop(s.targets[0].id, None)
        else:
            e, pol = ev[1], ev[2]
            if isinstance(e, ast.Name) and e.id in flags and flags[e.id] != pol:
                return False
    return True


def _name_aliases(funcnode):
    """{'route.name': 'item.name'} for ``route = C(name=item.name, ...)``."""
    out = {}
    for n in own_nodes(funcnode):
        if isinstance(n, ast.Assign) and isinstance(n.targets[0], ast.Name) and \
                isinstance(n.value, ast.Call):
            for k in n.value.keywords:
                if k.arg is not None:
                    out['%s.%s' % (n.targets[0].id, k.arg)] = unparse(k.value)
    return out


def path_sensitive_kinds(ek, func, node, expr):
    """Union over feasible enumerated paths of the kinds ``expr`` can have
    when ``node`` is evaluated."""
    from .paths import enumerate_paths
    from .model import stmt_of
    target_stmt = stmt_of(node)
    aliases = _name_aliases(func.node)
    subject = unparse(expr)
    for a, b in aliases.items():
        subject = subject.replace(a, b)
    base = ek._base_kinds(func, expr, node)
    if base is None:
        return None
    out = set()
    seen_any = False
    for p in enumerate_paths(func.node):
        if target_stmt not in p.stmts or not _feasible(p):
            continue
        seen_any = True
        kinds = base
        for ev in p.events:
            if ev[0] == 'stmt':
                s = ev[1]
                if s is target_stmt:
                    break
                if isinstance(s, ast.Assign) and isinstance(s.targets[0], ast.Subscript):
                    t = unparse(s.targets[0])
                    for a, b in aliases.items():
                        t = t.replace(a, b)
                    if t == subject:
                        v = unparse(s.value)
                        if v == 'ApiRoutesByVersion()':
                            kinds = frozenset({'ApiRoutesByVersion'})
                        else:
                            kinds = base
            else:
                e, pol = ev[1], ev[2]
                kinds = ek._filter(kinds, func.module, _subst(e, aliases), pol, subject)
        out |= kinds
    return frozenset(out) if seen_any else base


def _subst(e, aliases):
    if not aliases:
        return e
    t = unparse(e)
    changed = False
    for a, b in aliases.items():
        if a in t:
            t = t.replace(a, b)
            changed = True
    if not changed:
        return e
    try:
        return ast.parse(t, mode='eval').body
    except SyntaxError:
        return e
