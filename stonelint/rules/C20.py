"""C20 -- a route whitelist yields a dependency-closed, minimal API.

Structural part (DESIGN 4/C20): the dependency traversal covers every
reference-bearing attribute of every IR class (edge table cross-checked against
data_types.py), its dispatch is exhaustive, route IO unwrapping hands every
composite type to it, the seeds are complete, and the filter rewrites every
registry whose items hold type references.  Minimality is not decided.
"""
import ast

from ..lattice import ir_family, reaching_classes
from ..model import call_name, own_nodes, unparse
from ..pathcond import assigned_alternatives, path_info

PROP = 'C20'
GEN = 'stone.frontend.ir_generator.IRGenerator'
GENM = 'stone.frontend.ir_generator'
API = 'stone.ir.api'
IRM = 'stone.ir.data_types'
EXPLANATION = (
    'Exhaustiveness analysis of the whitelist filter. R1: the edge table (IR class -> attributes '
    'that hold references to other data types) is cross-checked on every run against the '
    'constructors/set_* methods of stone/ir/data_types.py (an unclassified reference-bearing '
    'attribute is an analysis error), and in _find_dependencies_recursive the branch that each '
    'class reaches recurses on each of its edges; the dispatch has no reachable default; doc '
    'references of types, fields and aliases are followed and their routes recorded under the '
    'namespace they were found in. R2: the filter rewrites every ApiNamespace registry whose '
    'items hold type references (data_types, routes, aliases) together with the paired by-name '
    'tables, for every namespace unconditionally. R3: seeds -- IO types of every whitelisted '
    'route (get_route_io_data_types_for_route unwraps List/Nullable and keeps every other '
    'composite or alias), route docs, namespace docs, the datatype whitelist. Decides closure '
    'mechanics, not minimality.'
    ' RD (effect-condition drift, stonelint.effects): for the functions this property is anchored in (stonelint.ownership) the path formula of every raise / return / continue / break / assignment / call statement is compared with reference/effects.json by truth table over the leaf tests (so nested vs merged tests, guard clauses vs if/else ladders, De Morgan forms read alike); an effect lost on a path, or a control effect gained on one, is a violation; changed texts and re-spelled tests are not claimed.'
    " RE (expression drift, stonelint.exprdrift): the same functions' attribute names, variable reads, simple statements, calls and arithmetic/slice literals are compared with reference/expressions.json; a substituted attribute or variable, a dropped call or assignment, swapped arguments or a changed literal is a violation; any other edit is not claimed. RC (call-condition drift, stonelint.effects.run_calls): for every call of a repository or imported-library function in those functions, the path conditions of its occurrences are compared with reference/effects.json by truth table; an assignment under which the function used to make the call and now completes without it is a violation (tests on memo tables, emptiness of the iterated collection and earlier refusals excepted; re-spelled conditions are not claimed). MK (memo-key rule, stonelint.memo): a memo table or done-set the reference tree does not have must be keyed by every access path the skipped code reads, injectively and type-aware."
    ' RI (interface drift, stonelint.interface): constants and tables (folded values), compiled regular expressions (witness text), parameter defaults, special methods, base classes and caching decorators of the modules the property rests on are compared with reference/interface.json; only a concrete difference in what is computed is reported.'
    ' MU (mutation drift, stonelint.mutation): the functions the property rests on update in place only the caller-owned, class-level and module-level objects they updated on the confirmed tree, and have no new handler that swallows an exception (reference/mutations.json).')
ASSUMPTIONS = [
    'a reference-bearing attribute is one assigned, in a constructor or set_* method of an IR '
    'class, from a parameter named like a data type (data_type, *_data_type, parent_type, fields, '
    'subtype_fields, catch_all_field)',
]

# class -> attributes holding references the traversal must follow
EDGES = {
    'Nullable': ['data_type'], 'List': ['data_type'], 'Alias': ['data_type'],
    'Map': ['key_data_type', 'value_data_type'],
    'Struct': ['parent_type', 'fields', '_enumerated_subtypes'],
    'Union': ['parent_type', 'fields'],
    'Field': ['data_type'],
}


def run(pm, ctx):
    for r, t in (('C20-R1', 'traversal covers every reference-bearing attribute; dispatch '
                            'exhaustive; doc references followed'),
                 ('C20-R2', 'every registry holding type references is rewritten, for every '
                            'namespace'),
                 ('C20-R3', 'seed completeness')):
        ctx.rule(r, t)
    irf = ir_family(pm)

    # ---------------- R1a edge table vs data_types.py
    def ref_attrs(cls):
        out = set()
        for k in pm.mro(cls):
            for m in k.methods.values():
                if not (m.name == '__init__' or m.name.startswith('set_')):
                    continue
                for n in own_nodes(m.node):
                    if isinstance(n, ast.Assign) and isinstance(n.targets[0], ast.Attribute) and \
                            unparse(n.targets[0].value) == 'self' and \
                            isinstance(n.value, ast.Name) and n.value.id in m.params:
                        p = n.value.id
                        if p == 'data_type' or p.endswith('_data_type') or p in (
                                'parent_type', 'fields', 'catch_all_field'):
                            out.add(n.targets[0].attr)
                    if isinstance(n, ast.Call) and unparse(n.func) == \
                            'self._enumerated_subtypes.append':
                        out.add('_enumerated_subtypes')
        return out
    field_cls = pm.cls(IRM + '.Field')
    for cname in sorted(irf.concrete) + ['Field']:
        cls = irf.classes.get(cname) or field_cls
        found = ref_attrs(cls)
        # catch_all_field is one of .fields; doc strings are handled separately
        found.discard('catch_all_field')
        want = set(EDGES.get(cname, []))
        ctx.check('C20-R1', found == want,
                  'ir.%s: reference-bearing attributes %s match the edge table' % (
                      cname, sorted(found)), cls.module.relpath,
                  msg='ir.%s stores data-type references in %s but the traversal edge table has '
                      '%s: a new edge kind would not be followed' % (
                          cname, sorted(found), sorted(want)),
                  key='C20-R1|edges|%s' % cname)

    # ---------------- R1b traversal follows every edge
    f = pm.func(GEN + '._find_dependencies_recursive')
    pi = path_info(f.node)
    rec = [c for c in own_nodes(f.node) if isinstance(c, ast.Call) and
           call_name(c) == '_find_dependencies_recursive']
    followed = {}
    fam_uni = irf.universe()
    for c in rec:
        arg = c.args[0]
        classes = reaching_classes(pm, irf, f, c, 'data_type')
        is_field = any(pol and unparse(e) == 'is_field_type(data_type)' for e, pol in pi.at(c)) or \
            any(pol and isinstance(e, ast.BoolOp) and 'is_field_type(data_type)' in unparse(e)
                for e, pol in pi.at(c))
        a = unparse(arg)
        loops = [unparse(l.iter) for l in pi.loops_at(c)]
        attr = None
        if a.startswith('data_type.'):
            attr = a[len('data_type.'):]
        elif a in ('field',) and any('data_type.all_fields' in l for l in loops):
            attr = 'fields'
        elif a == 'subtype' and any('get_enumerated_subtypes()' in l for l in loops):
            attr = '_enumerated_subtypes'
        if attr is None:
            continue
        for cl in classes:
            followed.setdefault(cl, set()).add(attr)
        if is_field:
            followed.setdefault('Field', set()).add(attr)
    for cname, attrs in sorted(EDGES.items()):
        got = followed.get(cname, set())
        ctx.check('C20-R1', set(attrs) <= got,
                  '_find_dependencies_recursive follows %s of ir.%s' % (attrs, cname), f.loc,
                  msg='the dependency traversal does not follow %s of ir.%s: types reachable '
                      'only through it are dropped while their referrer is kept' % (
                          sorted(set(attrs) - got), cname),
                  key='C20-R1|%s|follows|%s' % (f.qualname, cname))
    # dispatch exhaustive: the final assert is dead for every IR class
    for n in own_nodes(f.node):
        if isinstance(n, ast.Assert) and isinstance(n.test, ast.Constant) and not n.test.value:
            classes = reaching_classes(pm, irf, f, n, 'data_type')
            ctx.check('C20-R1', not classes, 'traversal dispatch covers every IR class', f.loc,
                      msg='IR classes %s reach `assert False` in the dependency traversal'
                          % sorted(classes), key='C20-R1|%s|default' % f.qualname)
    # user types are recorded
    rec_out = [c for c in own_nodes(f.node) if isinstance(c, ast.Call) and
               unparse(c.func) == 'output_types[data_type.namespace.name].append']
    ok = len(rec_out) == 1 and reaching_classes(pm, irf, f, rec_out[0], 'data_type') == \
        {'Struct', 'Union'} and unparse(rec_out[0].args[0]) == 'data_type'
    ctx.check('C20-R1', ok, 'every visited struct/union is recorded under its own namespace',
              f.loc, msg='visited user types are not all recorded for their namespace',
              key='C20-R1|%s|record' % f.qualname)
    # doc references
    docs = [c for c in own_nodes(f.node) if isinstance(c, ast.Call) and
            call_name(c) == 'parse_data_types_and_routes_from_doc_ref']
    doc_classes = set()
    field_docs = False
    for c in docs:
        doc_classes |= set(reaching_classes(pm, irf, f, c, 'data_type'))
        field_docs |= any('is_field_type' in unparse(e) and pol for e, pol in pi.at(c))
    ctx.check('C20-R1', {'Struct', 'Union', 'Alias'} <= doc_classes and field_docs and
              all(any(unparse(e) == 'data_type.doc is not None' and pol for e, pol in pi.at(c))
                  for c in docs),
              'doc references of structs, unions, aliases and fields are followed', f.loc,
              msg='doc references are followed only for %s' % sorted(doc_classes),
              key='C20-R1|%s|docs' % f.qualname)
    # routes found in docs are recorded under the namespace they were found in
    n_st = 0
    for lp in own_nodes(f.node):
        if isinstance(lp, ast.For) and unparse(lp.iter) == 'routes_by_ns.items()':
            keyvar = lp.target.elts[0].id if isinstance(lp.target, ast.Tuple) else None
            for c in ast.walk(lp):
                if isinstance(c, ast.Call) and isinstance(c.func, ast.Attribute) and \
                        c.func.attr == 'add' and isinstance(c.func.value, ast.Subscript) and \
                        unparse(c.func.value.value) == 'output_routes':
                    n_st += 1
                    ctx.check('C20-R1', unparse(c.func.value.slice) == keyvar,
                              'doc-referenced routes are recorded under the namespace they belong '
                              'to', '%s:%d' % (f.module.relpath, c.lineno),
                              msg='a doc-referenced route is recorded under %s instead of its own '
                                  'namespace %s' % (unparse(c.func.value.slice), keyvar),
                              key='C20-R1|%s|route-ns' % f.qualname)
                if isinstance(c, ast.Assign) and unparse(c.targets[0]) == 'route_namespace':
                    ctx.check('C20-R1', unparse(c.value) == 'self.api.namespaces[%s]' % keyvar,
                              'IO types of a doc-referenced route come from its own namespace',
                              '%s:%d' % (f.module.relpath, c.lineno),
                              msg='route IO types are looked up in %s' % unparse(c.value),
                              key='C20-R1|%s|route-io-ns' % f.qualname)
    ctx.check('C20-R1', n_st == 2, 'both doc branches record the routes they find', f.loc,
              msg='expected 2 route-recording sites, found %d' % n_st,
              key='C20-R1|%s|route-sites' % f.qualname)
    pd = pm.func(GENM + '.parse_data_types_and_routes_from_doc_ref')
    tags = set()
    ppi = path_info(pd.node)
    for n in own_nodes(pd.node):
        if isinstance(n, ast.Call) and isinstance(n.func, ast.Attribute) and n.func.attr == 'add':
            for e, pol in ppi.at(n):
                t = unparse(e)
                if pol and t.startswith("tag == '"):
                    tags.add(t[8:-1])
    ctx.check('C20-R1', tags == {'field', 'route', 'type'},
              'doc parser collects types of :field:, :type: and routes of :route:', pd.loc,
              msg='doc reference kinds collected: %s' % sorted(tags),
              key='C20-R1|%s|tags' % pd.qualname)
    # a route found in a doc is recorded under the namespace it was looked up in
    from ..dataflow import defs as _defs
    dpd = _defs(pd.node)
    adds = [n for n in own_nodes(pd.node) if isinstance(n, ast.Call) and
            isinstance(n.func, ast.Attribute) and n.func.attr == 'add' and
            isinstance(n.func.value, ast.Subscript) and unparse(n.func.value.value) == 'routes']
    okr = len(adds) == 1
    if okr:
        key = unparse(adds[0].func.value.slice)
        arg = adds[0].args[0]
        srcs = [unparse(v) for v in dpd.all_values(arg.id)] if isinstance(arg, ast.Name) else []
        okr = key.endswith('.name') and bool(srcs) and all(
            s_.startswith(key[:-len('.name')] + '.routes_by_name[') for s_ in srcs)
    ctx.check('C20-R1', okr, 'doc parser files a referenced route under the namespace that owns it',
              pd.loc, msg='parse_data_types_and_routes_from_doc_ref records a route under a '
                          'namespace other than the one it was looked up in: the filter then '
                          'keeps a same-named route of the wrong namespace (or raises KeyError)',
              key='C20-R1|%s|route-owner' % pd.qualname)

    # ---------------- R2
    flt = pm.func(GEN + '._filter_namespaces_by_route_whitelist')
    # routes are carried as text between the closure and the rebuild: what is written with
    # name_with_version() is what parse_route_name_and_version() reads back
    reprs = [leaf for leaf, _ in assigned_alternatives(flt.node, 'output_route_reprs')]
    enc_ok = len(reprs) == 1 and isinstance(reprs[0], ast.ListComp) and \
        isinstance(reprs[0].elt, ast.Call) and call_name(reprs[0].elt) == 'name_with_version'
    dec_ok = any(isinstance(c, ast.Call) and call_name(c) == 'parse_route_name_and_version'
                 for c in own_nodes(flt.node))
    ctx.check('C20-R2', enc_ok and dec_ok, 'kept routes are re-identified by name and version '
              '(name_with_version / parse_route_name_and_version)', flt.loc,
              msg='the whitelist rebuild encodes kept routes as %s but decodes them with '
                  'parse_route_name_and_version: a doc-referenced `r:2` is rebuilt as version 1'
                  % [unparse(r)[:60] for r in reprs], key='C20-R2|%s|route-repr' % flt.qualname)
    # a route is identified by name AND version: every place that decodes a route
    # representation uses both halves of the pair
    n_dec = 0
    for f in pm.funcs_in('stone.frontend.ir_generator'):
        for c in own_nodes(f.node):
            if not (isinstance(c, ast.Call) and call_name(c) == 'parse_route_name_and_version'):
                continue
            n_dec += 1
            par = getattr(c, '_parent', None)
            both = False
            if isinstance(par, ast.Assign) and par.value is c and len(par.targets) == 1 and \
                    isinstance(par.targets[0], ast.Tuple) and len(par.targets[0].elts) == 2 and \
                    all(isinstance(t, ast.Name) for t in par.targets[0].elts):
                names = [t.id for t in par.targets[0].elts]
                reads = {n.id for n in own_nodes(f.node)
                         if isinstance(n, ast.Name) and isinstance(n.ctx, ast.Load)}
                both = all(nm in reads for nm in names)
            ctx.check('C20-R2', both, '%s: decoded route name and version are both used' % f.short,
                      '%s:%d' % (f.module.relpath, c.lineno),
                      msg='%s decodes a route representation but does not use both the name and '
                          'the version: another version of a kept route is kept (or dropped) with '
                          'it' % f.short, key='C20-R2|%s|name-and-version' % f.qualname)
    ctx.floor('C20-R2', n_dec, 3, 'route representations decoded')
    # the types a route refers to are collected as written: nothing in the closure computation
    # looks through an alias (unwrap / unwrap_aliases / resolve_aliases), or the alias would be
    # filtered out while the route still names it
    import re as _re
    from ..ownership import OWN as _OWN
    pats = [_re.compile(x) for x in _OWN['C20']]
    STRIP = ('unwrap', 'unwrap_aliases', 'resolve_aliases', 'strip_alias', 'unwrap_nullable')
    n_cl = 0
    for q, f in sorted(pm.functions.items()):
        if not any(x.search(q) for x in pats):
            continue
        n_cl += 1
        hits = [c for c in own_nodes(f.node, include_nested=True)
                if isinstance(c, ast.Call) and call_name(c) in STRIP and
                call_name(c) != 'unwrap_nullable']
        ctx.check('C20-R2', not hits, '%s: references are collected without looking through aliases'
                  % f.short, f.loc,
                  msg='%s looks through aliases (%s) while collecting what a route depends on: the '
                      'alias itself is no longer kept although the route still refers to it'
                  % (f.short, ', '.join(sorted({call_name(c) for c in hits}))),
                  key='C20-R2|%s|alias-kept' % f.qualname)
    ctx.floor('C20-R2', n_cl, 4, 'closure functions inspected for alias stripping')
    ns_cls = pm.cls(API + '.ApiNamespace')
    init = ns_cls.methods['__init__']
    lists = [unparse(n.targets[0])[5:] for n in own_nodes(init.node)
             if isinstance(n, ast.Assign) and isinstance(n.value, ast.List)]
    holds_types = {'routes': True, 'data_types': True, 'aliases': True, 'annotations': False,
                   'annotation_types': False}
    final = [l for l in own_nodes(flt.node) if isinstance(l, ast.For) and
             unparse(l.iter) == 'self.api.namespaces.values()']
    ok_loop = len(final) == 1
    ctx.check('C20-R2', ok_loop, 'the filter rewrites the registries in one loop over every '
              'namespace', flt.loc, msg='the final rewrite loop changed',
              key='C20-R2|%s|loop' % flt.qualname)
    if ok_loop:
        lp = final[0]
        fpi = path_info(flt.node)
        for reg in lists:
            if reg not in holds_types:
                ctx.check('C20-R2', False, 'registry %s is classified' % reg, init.loc,
                          msg='ApiNamespace gained the list registry %s: decide whether its items '
                              'hold type references' % reg, key='C20-R2|registry|%s' % reg)
                continue
            if not holds_types[reg]:
                continue
            assigns = [n for n in ast.walk(lp) if isinstance(n, ast.Assign) and
                       unparse(n.targets[0]) == 'namespace.' + reg]
            uncond = [n for n in assigns if len(fpi.at(n)) == len(fpi.at(lp)) and n in lp.body]
            ctx.check('C20-R2', len(uncond) >= 1,
                      'namespace.%s is rewritten for every namespace' % reg, flt.loc,
                      msg='the whitelist filter does not rewrite namespace.%s (unconditionally, '
                          'for every namespace): items outside the closure survive while the '
                          'types they refer to are removed' % reg,
                      key='C20-R2|%s|%s' % (flt.qualname, reg))
        conts = [n for n in ast.walk(lp) if isinstance(n, ast.Continue)]
        ctx.check('C20-R2', not conts, 'no namespace is skipped by the rewrite loop', flt.loc,
                  msg='the rewrite loop skips some namespaces: those keep all their types',
                  key='C20-R2|%s|skip' % flt.qualname)
        body = ' ; '.join(unparse(s) for s in lp.body)
        for by in ('data_type_by_name', 'alias_by_name', 'route_by_name', 'routes_by_name'):
            ctx.check('C20-R2', ('namespace.%s = ' % by) in body,
                      'namespace.%s is rebuilt alongside' % by, flt.loc,
                      msg='namespace.%s is not rebuilt by the filter' % by,
                      key='C20-R2|%s|%s' % (flt.qualname, by))
        ctx.check('C20-R2', 'namespace.add_route(route)' in ' ; '.join(
            unparse(s) for s in ast.walk(lp) if isinstance(s, ast.Expr)),
            'kept routes are re-added through add_route', flt.loc,
            msg='kept routes are not re-registered through add_route',
            key='C20-R2|%s|add_route' % flt.qualname)
    fd = pm.func(GEN + '._find_dependencies')
    ok = any(isinstance(n, ast.Call) and unparse(n.func).startswith('output_aliases[') and
             n.func.attr == 'append' and
             any(unparse(e) == 'is_alias(t)' and pol for e, pol in path_info(fd.node).at(n))
             for n in own_nodes(fd.node))
    ctx.check('C20-R2', ok, 'the aliases kept are the aliases the traversal visited', fd.loc,
              msg='_find_dependencies no longer reports the visited aliases',
              key='C20-R2|%s|aliases' % fd.qualname)

    # ---------------- R3
    io = pm.func(API + '.ApiNamespace.get_route_io_data_types_for_route')
    adds = [c for c in own_nodes(io.node) if isinstance(c, ast.Call) and
            unparse(c.func) == 'data_types.add']
    wh = [w for w in own_nodes(io.node) if isinstance(w, ast.While)]
    ok = False
    if len(adds) == 1 and len(wh) == 1:
        from ..lattice import class_test
        unwrapped = class_test(pm, irf, io.module, wh[0].test, 'dtype')
        kept = reaching_classes(pm, irf, io, adds[0], 'dtype')
        rest = irf.below('Composite') - (unwrapped or frozenset())
        ok = unwrapped == {'List', 'Nullable'} and rest <= kept
        ctx.check('C20-R3', ok, 'route IO: List/Nullable unwrapped, every other composite type '
                  '(%s) handed to the traversal' % sorted(rest), io.loc,
                  msg='get_route_io_data_types_for_route keeps only %s after unwrapping %s: a '
                      'route whose IO type is one of %s loses its dependencies' % (
                          sorted(kept), sorted(unwrapped or []), sorted(rest - kept)),
                  key='C20-R3|%s|kept' % io.qualname)
    else:
        ctx.check('C20-R3', False, 'route IO unwrapping shape recognised', io.loc,
                  msg='get_route_io_data_types_for_route changed shape',
                  key='C20-R3|%s|shape' % io.qualname)
    trip = [l for l in own_nodes(io.node) if isinstance(l, ast.For)]
    ctx.check('C20-R3', len(trip) == 1 and unparse(trip[0].iter) ==
              '(route.arg_data_type, route.result_data_type, route.error_data_type)',
              'argument, result and error types are all seeds', io.loc,
              msg='route IO no longer covers arg, result and error',
              key='C20-R3|%s|triple' % io.qualname)
    fsrc = [unparse(c) for c in own_nodes(flt.node) if isinstance(c, ast.Call)]
    for what, frag in (
            ('IO types of each whitelisted route',
             'route_data_types.extend(namespace.get_route_io_data_types_for_route(route))'),
            ('doc of each whitelisted route',
             'route_data_types.extend(parse_data_types_from_doc_ref(self.api, route.doc, '
             'namespace_name))'),
            ('namespace docs',
             'route_data_types.extend(parse_data_types_from_doc_ref(self.api, namespace.doc, '
             'namespace_name))'),
            ('datatype whitelist', 'route_data_types.append(data_type)')):
        ctx.check('C20-R3', frag in fsrc, 'seed: %s' % what, flt.loc,
                  msg='the filter no longer seeds the traversal with %s' % what,
                  key='C20-R3|%s|seed|%s' % (flt.qualname, what))
    pdt = pm.func(GENM + '.parse_data_types_from_doc_ref')
    ctx.check('C20-R3', any(isinstance(c, ast.Call) and call_name(c) ==
                            'get_route_io_data_types_for_route' for c in own_nodes(pdt.node)),
              'routes named in a seed doc contribute their IO types', pdt.loc,
              msg='doc-referenced routes no longer contribute IO types to the seeds',
              key='C20-R3|%s|routes' % pdt.qualname)
    # whitelisted routes are kept: route_reprs = whitelisted + doc-referenced
    ok = any(isinstance(n, ast.Assign) and unparse(n.targets[0]) == 'route_reprs' and
             'whitelisted_route_reprs + output_route_reprs' in unparse(n.value)
             for n in own_nodes(flt.node))
    ctx.check('C20-R3', ok, 'kept routes = whitelisted routes + routes referenced from kept docs',
              flt.loc, msg='the set of kept routes changed',
              key='C20-R3|%s|kept-routes' % flt.qualname)

    from ..effects import run_decisions
    from ..ownership import OWN
    run_decisions(pm, ctx, 'C20-RD', OWN['C20'])
    from .. import exprdrift
    exprdrift.run(pm, ctx, 'C20-RE', OWN['C20'])
    from ..effects import run_calls
    run_calls(pm, ctx, 'C20-RC', OWN['C20'])
    from .. import memo
    memo.run(pm, ctx, 'C20-MK', OWN['C20'])
    from .. import interface
    interface.run(pm, ctx, 'C20-RI', OWN['C20'])
    from .. import mutation
    mutation.run(pm, ctx, 'C20-MU', OWN['C20'])
