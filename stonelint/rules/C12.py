"""C12 -- code generation is deterministic.

Structural part (DESIGN 4/C12): order-taint dataflow -- no unordered
collection (set, set algebra, file-system listing, or a sequence copied from
one) reaches an emission, a string format or a join unsorted (keyed sorts
need an injectivity fact); per-run backend state is reset; the whitelist
filter's set-built lists are sorted by normalize.
"""
import ast

from ..callgraph import CallGraph
from ..model import call_name, own_nodes, unparse
from ..model import self_assigns
from ..pathcond import path_info
from ..taint import OrderTaint

PROP = 'C12'
MODS = ['stone.backend', 'stone.compiler', 'stone.backends', 'stone.ir',
        'stone.frontend.ir_generator']
API = 'stone.ir.api'
EXPLANATION = (
    'Order-taint dataflow (abstract values ordered / unordered / order-tainted; intraprocedural '
    'evaluation with structural last-definition lookup; program-wide fixpoint summaries for '
    'function results, attribute values and "reaches an emission") over stone/backend.py, '
    'stone/compiler.py, every built-in backend and helper, stone/ir and the IR generator. '
    'R1: no for-loop whose body reaches an emission, no str.format/%/str()/join and no emitted '
    'list consumes an unordered or order-tainted value; sorted() without key sanitises, a keyed '
    'sort only with an injectivity fact from the frozen table (each fact tied to a structural '
    'precondition re-checked on every run); a set all of whose add sites pass one constant is a '
    'singleton and exempt. R2: every class-level mutable container of a Backend subclass is '
    'rebound on the generate path before it is read; clear_output_buffer brackets every output '
    'context. R3: lists the whitelist filter rebuilds from sets are assigned only to registries '
    'ApiNamespace.normalize sorts, and normalize follows the filter. Decides these structural '
    'parts (closest of all properties to the behaviour itself).'
    ' R5 (imported from C15-R3): the class-level typing-import tracker is reset at the start of every module, so output does not depend on what ran earlier in the process.'
    ' RD (effect-condition drift, stonelint.effects): for the functions this property is anchored in (stonelint.ownership) the path formula of every raise / return / continue / break / assignment / call statement is compared with reference/effects.json by truth table over the leaf tests (so nested vs merged tests, guard clauses vs if/else ladders, De Morgan forms read alike); an effect lost on a path, or a control effect gained on one, is a violation; changed texts and re-spelled tests are not claimed.'
    " RE (expression drift, stonelint.exprdrift): the same functions' attribute names, variable reads, simple statements, calls and arithmetic/slice literals are compared with reference/expressions.json; a substituted attribute or variable, a dropped call or assignment, swapped arguments or a changed literal is a violation; any other edit is not claimed. RC (call-condition drift, stonelint.effects.run_calls): for every call of a repository or imported-library function in those functions, the path conditions of its occurrences are compared with reference/effects.json by truth table; an assignment under which the function used to make the call and now completes without it is a violation (tests on memo tables, emptiness of the iterated collection and earlier refusals excepted; re-spelled conditions are not claimed). MK (memo-key rule, stonelint.memo): a memo table or done-set the reference tree does not have must be keyed by every access path the skipped code reads, injectively and type-aware."
    ' RI (interface drift, stonelint.interface): constants and tables (folded values), compiled regular expressions (witness text), parameter defaults, special methods, base classes and caching decorators of the modules the property rests on are compared with reference/interface.json; only a concrete difference in what is computed is reported.'
    ' MU (mutation drift, stonelint.mutation): the functions the property rests on update in place only the caller-owned, class-level and module-level objects they updated on the confirmed tree, and have no new handler that swallows an exception (reference/mutations.json).')
ASSUMPTIONS = [
    'dicts preserve insertion order (CPython >= 3.7); a dict built in a deterministic order is '
    'ordered',
    'injectivity facts: namespace names are dict keys of Api.namespaces; names of types / aliases '
    'within one namespace are unique because _create_* binds only after a clash test (C01-R4); '
    'omitted-caller strings are compared with key=str over strings and None',
    'operator dunder dispatch of list.sort (ApiRoute.__lt__) is a total order on (name, version)',
]

# keyed sorts accepted as total orders: (function qualname suffix, key text) -> reason
INJECTIVE = {
    ('ApiNamespace.get_route_io_data_types', 'lambda dt: dt.name'):
        'user types of one API reachable from one namespace\'s routes: names unique per namespace; '
        'same-named types of two namespaces can tie -- accepted because the result is only used '
        'for namespace import sets (re-sorted) and per-namespace emission',
    ('ApiNamespace.get_namespaces_imported_by_route_io', 'lambda dt: dt.name'): 'as above',
    ('ApiNamespace.get_namespaces_imported_by_route_io', 'lambda n: n.name'):
        'namespace names are the keys of Api.namespaces',
    ('ApiNamespace.get_imported_namespaces', 'lambda n: n.name'):
        'namespace names are the keys of Api.namespaces',
    ('ApiNamespace.normalize', 'lambda data_type: data_type.name'): 'unique within a namespace',
    ('ApiNamespace.normalize', 'lambda alias: alias.name'): 'unique within a namespace',
    ('ApiNamespace.normalize', 'lambda annotation: annotation.name'): 'unique within a namespace',
    ('ApiNamespace.normalize', 'lambda annotation_type: annotation_type.name'):
        'unique within a namespace',
    ('PythonTypesBackend._generate_struct_class_reflection_attributes', 'str'):
        'omitted callers are distinct strings plus None',
    ('PythonTypesBackend._generate_union_class_reflection_attributes', 'str'):
        'omitted callers are distinct strings plus None',
    ('PythonTypesBackend._generate_struct_class_custom_annotations', '_processor_sort_key'):
        'key is (type name, namespace name, emitted code): equal keys emit identical text',
    ('PythonTypesBackend._generate_union_class_custom_annotations', '_processor_sort_key'):
        'key is (type name, namespace name, emitted code): equal keys emit identical text',
}


def run(pm, ctx):
    for r, t in (('C12-R1', 'no unordered value reaches an emission / format / join unsorted'),
                 ('C12-R2', 'per-run backend state is reset'),
                 ('C12-R3', 'set-built registry lists are sorted by normalize')):
        ctx.rule(r, t)
    scope = [f for f in pm.funcs_in(*MODS) if 'python_rsrc' not in f.module.name]
    cg = CallGraph(pm, scope_modules=MODS)
    used_facts = set()

    def injective(f, call):
        key = [k.value for k in call.keywords if k.arg == 'key']
        if not key:
            return True
        kt = unparse(key[0])
        for (suffix, ktext), why in INJECTIVE.items():
            if f.qualname.endswith(suffix) and kt == ktext:
                used_facts.add((suffix, ktext))
                return True
        return False

    # registries normalize sorts are order-sanitised attributes
    nn = pm.func(API + '.ApiNamespace.normalize')
    sanitized = set()
    for c in own_nodes(nn.node):
        if isinstance(c, ast.Call) and isinstance(c.func, ast.Attribute) and c.func.attr == 'sort' \
                and isinstance(c.func.value, ast.Attribute):
            sanitized.add(c.func.value.attr)
    ot = OrderTaint(pm, cg, scope, injective_key=injective, sanitized_attrs=sanitized)
    ctx.extra['functions_in_scope'] = len(scope)
    ctx.extra['taint_fixpoint_iterations'] = ot.iterations
    ctx.extra['unordered_attributes'] = {k: v for k, v in sorted(ot.attr.items())}
    ctx.extra['unordered_function_results'] = sorted(
        q.replace('stone.', '') for q, v in ot.ret.items() if v != 'O')
    ctx.extra['singleton_sets'] = ot.singleton_attrs

    # the precondition of the _processor_sort_key fact: the key really is total
    psk = pm.functions.get('stone.backends.python_types._processor_sort_key')
    if psk is not None:
        rets = [n for n in own_nodes(psk.node) if isinstance(n, ast.Return)]
        ok = len(rets) == 1 and isinstance(rets[0].value, ast.Tuple) and \
            len(rets[0].value.elts) == 3 and unparse(rets[0].value.elts[2]) == 'processor'
        ctx.check('C12-R1', ok, '_processor_sort_key includes the emitted code itself (total '
                  'order up to identical output)', psk.loc,
                  msg='_processor_sort_key is no longer a total order on processors',
                  key='C12-R1|_processor_sort_key|total')

    n_src = 0
    n_sinks = 0
    for f in scope:
        # every consumption of a non-ordered value is an instance
        for n in own_nodes(f.node):
            if isinstance(n, (ast.For, ast.AsyncFor)):
                v = ot.value(f, n.iter, n)
                raw = _raw_unordered(ot, f, n.iter, n)
                if raw and v in ('O', 'C'):
                    n_src += 1
                    ctx.ok('C12-R1', '%s: iteration over %s is sorted / order-insensitive' % (
                        f.short, unparse(n.iter)[:50]), '%s:%d' % (f.module.relpath, n.lineno))
        for node, kind, detail in ot.sinks(f):
            n_sinks += 1
            ctx.violation('C12-R1', 'C12-R1|%s|%s|%s' % (f.qualname, kind, _norm(node)),
                          '%s:%d' % (f.module.relpath, node.lineno),
                          '%s: %s -- output depends on the hash seed / file-system order'
                          % (f.short, detail))
    # every keyed sort is classified
    for f in scope:
        for c in own_nodes(f.node):
            if isinstance(c, ast.Call) and (call_name(c) == 'sorted' or (
                    isinstance(c.func, ast.Attribute) and c.func.attr == 'sort')) and \
                    any(k.arg == 'key' for k in c.keywords):
                arg = c.args[0] if call_name(c) == 'sorted' and c.args else (
                    c.func.value if isinstance(c.func, ast.Attribute) else None)
                kt = unparse([k.value for k in c.keywords if k.arg == 'key'][0])
                inj = injective(f, c)
                ctx.ok('C12-R1', '%s: keyed sort key=%s %s' % (
                    f.short, kt[:40], 'with injectivity fact' if inj else
                    'on an ordered input (ties keep a deterministic order)'),
                    '%s:%d' % (f.module.relpath, c.lineno))
    ctx.extra['sanitised_iterations'] = n_src

    # ---------------- R2
    backend_cls = pm.cls('stone.backend.Backend')
    n_state = 0
    for c in pm.subclasses(backend_cls):
        for name, val in sorted(c.attrs.items()):
            if not isinstance(val, (ast.Dict, ast.List, ast.Set)) and not (
                    isinstance(val, ast.Call) and call_name(val) in ('set', 'dict', 'list',
                                                                     'OrderedDict', 'defaultdict')):
                continue
            n_state += 1
            gen = pm.lookup_method(c, 'generate')
            reset = False
            first_use = None
            if gen is not None:
                for n in own_nodes(gen.node):
                    if isinstance(n, ast.Assign) and any(unparse(t) == 'self.' + name
                                                         for t in n.targets):
                        if first_use is None or n.lineno <= first_use:
                            reset = True
                        break
                    if isinstance(n, ast.Attribute) and n.attr == name and \
                            unparse(n.value) == 'self' and first_use is None and \
                            not isinstance(getattr(n, '_parent', None), ast.Assign):
                        first_use = n.lineno
                # reset must precede every other use in generate
                uses = [n.lineno for n in own_nodes(gen.node) if isinstance(n, ast.Attribute)
                        and n.attr == name and unparse(n.value) == 'self']
                assigns = [n.lineno for n in own_nodes(gen.node) if isinstance(n, ast.Assign)
                           and any(unparse(t) == 'self.' + name for t in n.targets)
                           and n in gen.node.body]
                reset = bool(assigns) and (min(assigns) <= min(uses))
            ctx.check('C12-R2', reset,
                      '%s.%s (class-level %s) is rebound at the start of generate()' % (
                          c.name, name, type(val).__name__),
                      '%s:%d' % (c.module.relpath, val.lineno),
                      msg='%s.%s is a mutable class attribute that generate() never resets: what '
                          'an earlier run in the same process stored there is still visible'
                          % (c.name, name), key='C12-R2|%s|%s' % (c.qualname, name))
    ctx.floor('C12-R2', n_state, 3, 'class-level mutable containers on Backend subclasses')
    otp = pm.func('stone.backend.Backend.output_to_relative_path')
    pi = path_info(otp.node)
    ys = [n for n in own_nodes(otp.node) if isinstance(n, ast.Expr) and
          isinstance(n.value, ast.Yield)]
    ok = bool(ys)
    for y in ys:
        blk, i = pi.block_of[id(y)]
        before = unparse(blk[i - 1]) if i > 0 else ''
        after = [unparse(s) for s in blk[i + 1:]]
        ok &= before == 'self.clear_output_buffer()' and \
            any(a == 'self.clear_output_buffer()' for a in after)
    ctx.check('C12-R2', ok, 'output_to_relative_path clears the buffer before and after every '
              'output context (%d yields)' % len(ys), otp.loc,
              msg='an output context no longer starts/ends with an empty buffer',
              key='C12-R2|%s|brackets' % otp.qualname)
    cob = pm.func('stone.backend.Backend.clear_output_buffer')
    st = set(self_assigns(cob.node))
    ctx.check('C12-R2', st == {'self.output', 'self.positional_placeholders',
                               'self.named_placeholders'},
              'clear_output_buffer resets the buffer and both placeholder tables', cob.loc,
              msg='clear_output_buffer resets %s' % sorted(st),
              key='C12-R2|%s|resets' % cob.qualname)
    it = pm.functions.get('stone.backends.python_type_stubs.ImportTracker.clear')
    if it is not None:
        cl = {unparse(c.func.value) for c in own_nodes(it.node) if isinstance(c, ast.Call) and
              isinstance(c.func, ast.Attribute) and c.func.attr == 'clear'}
        ctx.check('C12-R2', cl == {'self.cur_namespace_typing_imports',
                                   'self.cur_namespace_adhoc_imports'},
                  'ImportTracker.clear empties both import sets', it.loc,
                  msg='ImportTracker.clear empties %s' % sorted(cl),
                  key='C12-R2|%s' % it.qualname)
        user = pm.func('stone.backends.python_type_stubs.PythonTypeStubsBackend.'
                       '_generate_base_namespace_module')
        ctx.check('C12-R2', any(isinstance(c, ast.Call) and unparse(c.func) ==
                                'self.import_tracker.clear' for c in own_nodes(user.node)),
                  'the stub backend clears its import tracker for every namespace module',
                  user.loc, msg='import tracking is no longer cleared per namespace module',
                  key='C12-R2|%s|clear' % user.qualname)

    # ---------------- R3
    flt = pm.func('stone.frontend.ir_generator.IRGenerator._filter_namespaces_by_route_whitelist')
    for n in own_nodes(flt.node):
        if isinstance(n, ast.Assign) and isinstance(n.targets[0], ast.Attribute) and \
                unparse(n.targets[0].value) == 'namespace':
            v = ot.value(flt, n.value, n)
            if v != 'O':
                attr = n.targets[0].attr
                ok = attr in sanitized or attr.endswith('_by_name')
                ctx.check('C12-R3', ok, 'filter assigns a set-built value to namespace.%s, which '
                          '%s' % (attr, 'normalize sorts' if attr in sanitized else
                                  'is a by-name lookup table'),
                          '%s:%d' % (flt.module.relpath, n.lineno),
                          msg='the whitelist filter assigns a set-ordered value to namespace.%s, '
                              'which nothing sorts afterwards' % attr,
                          key='C12-R3|%s|%s' % (flt.qualname, attr))
    # by-name tables are never iterated by emitting code
    for f in scope:
        for n in own_nodes(f.node, include_nested=True):
            it_ = None
            if isinstance(n, (ast.For, ast.comprehension)):
                it_ = n.iter
            if it_ is None:
                continue
            t = unparse(it_)
            if '_by_name' in t and ('namespace.' in t or 'ns.' in t):
                ctx.check('C12-R3', False, '%s does not iterate a by-name table' % f.short,
                          '%s:%d' % (f.module.relpath, it_.lineno),
                          msg='%s iterates %s, whose order is not normalised' % (f.short, t),
                          key='C12-R3|%s|iterates-by-name' % f.qualname)
    g = pm.func('stone.frontend.ir_generator.IRGenerator.generate_IR')
    wl = [i for i, s in enumerate(g.node.body) if '_filter_namespaces_by_route_whitelist'
          in unparse(s)]
    nm = [i for i, s in enumerate(g.node.body) if unparse(s) == 'self.api.normalize()']
    ctx.check('C12-R3', wl and nm and wl[0] < nm[0], 'normalize follows the whitelist filter',
              g.loc, msg='normalize no longer follows the whitelist filter',
              key='C12-R3|order')
    from .C11 import sorted_returns
    ctx.rule('C12-R4', 'API-description queries built from sets/dicts return a sorted value on '
                       'every path')
    sorted_returns(pm, ctx, 'C12-R4')
    ctx.extra['injectivity_facts_used'] = sorted('%s key=%s' % x for x in used_facts)
    ctx.import_rules(pm, 'C15', {'C15-R3'}, 'C12-R5',
                     'the stub import tracker is cleared before every module (shared with '
                     'C15-R3)')

    from ..effects import run_decisions
    from ..ownership import OWN
    run_decisions(pm, ctx, 'C12-RD', OWN['C12'])
    from .. import exprdrift
    exprdrift.run(pm, ctx, 'C12-RE', OWN['C12'])
    from ..effects import run_calls
    run_calls(pm, ctx, 'C12-RC', OWN['C12'])
    from .. import memo
    memo.run(pm, ctx, 'C12-MK', OWN['C12'])
    from .. import interface
    interface.run(pm, ctx, 'C12-RI', OWN['C12'])
    from .. import mutation
    # state that survives a run is a determinism question in every backend
    mutation.run(pm, ctx, 'C12-MU', OWN['C12'] + [r'stone\.backends\.', r'stone\.backend\.'])


def _raw_unordered(ot, f, e, at):
    """Does expression e syntactically involve a set-built value (so that its
    being ordered is due to a sanitiser)?"""
    for n in ast.walk(e):
        if isinstance(n, ast.Call) and call_name(n) == 'sorted' and n.args:
            saved = ot.injective_key
            ot.injective_key = lambda f_, c_: False
            try:
                inner = ot.value(f, n.args[0], at)
            finally:
                ot.injective_key = saved
            if inner != 'O':
                return True
    return False


def _norm(node):
    if isinstance(node, (ast.For, ast.AsyncFor)):
        return 'for %s in %s' % (unparse(node.target), unparse(node.iter)[:60])
    return unparse(node)[:80]
