"""stonelint -- repository-specific static analyses for dropbox/stone.

Nothing in this package imports or executes code from /repo's ``stone``
package (the one stated exception is the vendored ``ply`` LALR table
generator, used as a grammar analyser by the thorough tier of C19; see
DESIGN.md section 1).  Everything is decided from ``ast`` trees of the
current working tree.
"""
