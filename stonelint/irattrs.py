"""Attribute tables of the IR classes and a small expression typing for code
that consumes the IR (backends and templates).

``attrs_of(cls)``: every instance attribute a class of stone.ir offers --
methods and properties (through the MRO), class-level assignments and every
``self.X = ...`` executed in a method of the class or of a base.  An attribute
read ``v.a`` on a value ``v`` that may be an instance of class C is defined
exactly when ``a in attrs_of(C)``; otherwise Python raises AttributeError and
Jinja yields Undefined.

``specific``: attribute names that at least one concrete DataType class offers
and at least one does not -- the reads that need a dispatch guard.
"""
import ast

from .lattice import ir_family
from .model import own_nodes

DT = 'stone.ir.data_types'
API = 'stone.ir.api'

# attribute -> element type of the value it holds, for typing expressions.
# ANY = any concrete data type the backend can see.  Frozen from
# stone/ir/data_types.py and stone/ir/api.py (constructor parameters and
# set_attributes), each confirmed by reading; only used to *seed* universes,
# every use is then narrowed by the guards on the path.
ANY = '*'
TYPED_ATTRS = {
    'data_type': ANY,            # Field / List / Nullable / Alias
    'key_data_type': ANY,        # Map (a String in every accepted spec, kept ANY)
    'value_data_type': ANY,      # Map
    'arg_data_type': ANY,        # ApiRoute
    'result_data_type': ANY,     # ApiRoute
    'error_data_type': ANY,      # ApiRoute
    'parent_type': ('Struct', 'Union'),
    'union_data_type': ('Union',),   # TagRef
}
# calls whose result is a list of user-defined types
USER_TYPE_LISTS = {'linearize_data_types', 'linearize_aliases'}


class IRAttrs:
    def __init__(self, pm):
        self.pm = pm
        self.fam = ir_family(pm)
        self._attrs = {}
        self.any = frozenset(self.fam.universe())
        tables = [self.attrs_of(c) for c in sorted(self.any)]
        every = set.intersection(*map(set, tables))
        some = set.union(*map(set, tables))
        self.specific = frozenset(some - every)
        self.common = frozenset(every)

    def class_info(self, name):
        c = self.fam.classes.get(name)
        if c is None:
            for mod in (DT, API):
                q = '%s.%s' % (mod, name)
                if q in self.pm.classes:
                    return self.pm.classes[q]
        return c

    def attrs_of_class(self, c):
        """Instance attributes of any modelled class (same rule as attrs_of)."""
        key = 'class:' + c.qualname
        if key in self._attrs:
            return self._attrs[key]
        out = set()
        for k in self.pm.mro(c):
            out.update(k.methods)
            out.update(k.attrs)
            for m in k.methods.values():
                for n in own_nodes(m.node):
                    if isinstance(n, ast.Attribute) and isinstance(n.ctx, ast.Store) and \
                            isinstance(n.value, ast.Name) and n.value.id == 'self':
                        out.add(n.attr)
        self._attrs[key] = frozenset(out)
        return self._attrs[key]

    def attrs_of(self, name):
        if name in self._attrs:
            return self._attrs[name]
        c = self.class_info(name)
        out = set()
        if c is not None:
            for k in self.pm.mro(c):
                out.update(k.methods)
                out.update(k.attrs)
                for m in k.methods.values():
                    for n in own_nodes(m.node):
                        if isinstance(n, ast.Attribute) and isinstance(n.ctx, ast.Store) and \
                                isinstance(n.value, ast.Name) and n.value.id == 'self':
                            out.add(n.attr)
        self._attrs[name] = frozenset(out)
        return self._attrs[name]

    def having(self, attr, universe=None):
        return frozenset(c for c in (universe or self.any) if attr in self.attrs_of(c))

    def backend_universe(self, preserve_aliases=False):
        return self.any if preserve_aliases else self.any - {'Alias'}
