"""C02 -- the API description is a faithful, closed image of the accepted specs.

Structural part (DESIGN 4/C02): registries are complete, sorted and
linearised; forward-reference typestate; no silent registry overwrite; field
order predicates; implicit catch-all; parser actions carry every declared
attribute into the AST.  Field-by-field fidelity is not decided.
"""
import ast

from ..lattice import ir_family, reaching_classes
from ..model import call_name, own_nodes, unparse
from ..model import returns_text
from ..pathcond import conds_truth, path_info, truth_table
from ..paths import enumerate_paths, path_calls

PROP = 'C02'
GEN = 'stone.frontend.ir_generator.IRGenerator'
PARSER = 'stone.frontend.parser.ParserFactory'
API = 'stone.ir.api'
IRM = 'stone.ir.data_types'
EXPLANATION = (
    'Structural analysis of how declarations reach the API description. R1: in '
    '_add_data_types_and_routes_to_api the object created for each definition kind is the one '
    'registered with the matching ApiNamespace.add_*; the five list registries are appended only '
    'by add_*, which also fills the paired *_by_name table; any other assignment to a registry '
    'resets the paired tables in the same block. R2: _is_forward_ref is cleared only as the last '
    'effect of UserDefined.set_attributes; _populate_type_attributes visits every type of every '
    'namespace and skips only already populated ones; every alias gets set_attributes. R3: '
    'Api.normalize sorts namespaces and normalises each; ApiNamespace.normalize sorts routes, '
    'data types, aliases, annotations; generate_IR returns after normalize. R4: in both '
    'linearisations the seen-test precedes the recursion on the parent / alias target, which '
    'precedes the append, for every kind with a parent. R5: all_fields = required + optional, '
    'parent first, predicates complementary; Union.all_fields parent first. R6: the implicit '
    '`other` field is created exactly when the union is open and has no open parent, and user '
    'tags named other are refused. R7: every store into a name-keyed registry of the generator is '
    'dominated by a membership test. R8: parser actions attach each optional part (doc, '
    'annotations, default, attrs, examples) under its own presence test only. Decides these '
    'structural parts, not field-by-field fidelity.'
    ' R9: route attribute values are tested for absence with `is None` only, so that a declared 0/false/"" is not replaced by the schema default.'
    ' RD (effect-condition drift, stonelint.effects): for the functions this property is anchored in (stonelint.ownership) the path formula of every raise / return / continue / break / assignment / call statement is compared with reference/effects.json by truth table over the leaf tests (so nested vs merged tests, guard clauses vs if/else ladders, De Morgan forms read alike); an effect lost on a path, or a control effect gained on one, is a violation; changed texts and re-spelled tests are not claimed.'
    " RE (expression drift, stonelint.exprdrift): the same functions' attribute names, variable reads, simple statements, calls and arithmetic/slice literals are compared with reference/expressions.json; a substituted attribute or variable, a dropped call or assignment, swapped arguments or a changed literal is a violation; any other edit is not claimed. RC (call-condition drift, stonelint.effects.run_calls): for every call of a repository or imported-library function in those functions, the path conditions of its occurrences are compared with reference/effects.json by truth table; an assignment under which the function used to make the call and now completes without it is a violation (tests on memo tables, emptiness of the iterated collection and earlier refusals excepted; re-spelled conditions are not claimed). MK (memo-key rule, stonelint.memo): a memo table or done-set the reference tree does not have must be keyed by every access path the skipped code reads, injectively and type-aware."
    ' GR (stonelint.grammar, shared with C01): what the parser puts into the AST starts from the grammar: p[k] reads stay inside the admitted alternatives and the token-level language is unchanged against reference/grammar.json (witness sentence on a difference).'
    ' RI (interface drift, stonelint.interface): constants and tables (folded values), compiled regular expressions (witness text), parameter defaults, special methods, base classes and caching decorators of the modules the property rests on are compared with reference/interface.json; only a concrete difference in what is computed is reported.'
    ' MU (mutation drift, stonelint.mutation): the functions the property rests on update in place only the caller-owned, class-level and module-level objects they updated on the confirmed tree, and have no new handler that swallows an exception (reference/mutations.json).')
ASSUMPTIONS = [
    'registries of ApiNamespace are the attributes initialised to [] / {} in its __init__',
    'a "membership test" is `key in registry` / `key not in registry` on the same key and registry',
]

REG_PAIRS = {'routes': ['route_by_name', 'routes_by_name'], 'data_types': ['data_type_by_name'],
             'aliases': ['alias_by_name'], 'annotations': ['annotation_by_name'],
             'annotation_types': ['annotation_type_by_name']}
ADDERS = {'add_route': 'routes', 'add_data_type': 'data_types', 'add_alias': 'aliases',
          'add_annotation': 'annotations', 'add_annotation_type': 'annotation_types'}


def run(pm, ctx):
    for r, t in (('C02-R1', 'registration pairing and registry ownership'),
                 ('C02-R2', 'forward-reference typestate'),
                 ('C02-R3', 'normalisation coverage'),
                 ('C02-R4', 'linearisation: seen-test, then parent/target, then append'),
                 ('C02-R5', 'field-order predicates'),
                 ('C02-R6', 'implicit catch-all'),
                 ('C02-R7', 'no silent registry overwrite'),
                 ('C02-R8', 'parser actions carry every declared attribute')):
        ctx.rule(r, t)
    irf = ir_family(pm)

    # ---------------- R1
    add = pm.func(GEN + '._add_data_types_and_routes_to_api')
    want = {'_create_type': 'add_data_type', '_create_route': 'add_route',
            '_create_alias': 'add_alias', '_create_annotation': 'add_annotation',
            '_create_annotation_type': 'add_annotation_type'}
    from ..dataflow import defs
    d = defs(add.node)
    for creator, adder in want.items():
        locs = [nm for nm, vals in d.values.items()
                if any(v is not None and isinstance(v, ast.Call) and call_name(v) == creator
                       for _, v, _ in vals)]
        calls = [c for c in own_nodes(add.node) if isinstance(c, ast.Call) and
                 call_name(c) == adder and unparse(c.func.value) == 'namespace']
        ok = len(locs) == 1 and len(calls) == 1 and unparse(calls[0].args[0]) == locs[0]
        # same branch
        if ok:
            assign = [s for _, v, s in d.values[locs[0]]][0]
            ok = getattr(assign, '_parent', None) is getattr(
                calls[0]._parent, '_parent', None) or \
                path_info(add.node).at(assign) == path_info(add.node).at(calls[0])
        ctx.check('C02-R1', ok, '%s result is registered with namespace.%s' % (creator, adder),
                  add.loc, msg='the object made by %s is not the one registered with %s' % (
                      creator, adder), key='C02-R1|%s|%s' % (add.qualname, creator))
    ns = pm.cls(API + '.ApiNamespace')
    for adder, reg in ADDERS.items():
        f = ns.methods.get(adder)
        if not ctx.check('C02-R1', f is not None, 'ApiNamespace.%s exists' % adder, ns.module.relpath,
                         msg='ApiNamespace.%s vanished' % adder, key='C02-R1|%s|exists' % adder):
            continue
        src = [unparse(s) for s in f.node.body]
        param = f.params[1]
        ok = any(s == 'self.%s.append(%s)' % (reg, param) for s in src)
        for by in REG_PAIRS[reg]:
            ok = ok and any(('self.%s[' % by) in s and s.endswith('= %s' % param) for s in src)
        ctx.check('C02-R1', ok, 'ApiNamespace.%s appends to %s and fills %s' % (
            adder, reg, REG_PAIRS[reg]), f.loc,
            msg='%s no longer keeps %s and %s in step' % (adder, reg, REG_PAIRS[reg]),
            key='C02-R1|%s|paired' % f.qualname)
    # who else writes the registries
    n_writes = 0
    for f in pm.funcs_in('stone'):
        if f.cls is ns and f.name in tuple(ADDERS) + ('__init__', 'normalize'):
            continue
        for n in own_nodes(f.node):
            tgt = None
            if isinstance(n, ast.Assign):
                for t in n.targets:
                    if isinstance(t, ast.Attribute) and t.attr in REG_PAIRS and (
                            unparse(t.value) in ('namespace', 'ns', 'stone_cfg') or
                            (unparse(t.value) == 'self' and f.cls is ns)):
                        tgt = t
            elif isinstance(n, ast.Call) and isinstance(n.func, ast.Attribute) and \
                    n.func.attr in ('append', 'extend', 'insert', 'remove', 'pop') and \
                    isinstance(n.func.value, ast.Attribute) and n.func.value.attr in REG_PAIRS \
                    and unparse(n.func.value.value) in ('namespace', 'self', 'ns', 'stone_cfg'):
                tgt = n.func.value
            if tgt is None:
                continue
            if isinstance(n, ast.Call):
                n_writes += 1
                ctx.check('C02-R1', False, '%s mutates %s directly' % (f.short, unparse(tgt)),
                          '%s:%d' % (f.module.relpath, n.lineno),
                          msg='%s mutates the registry %s without the add_* method that keeps the '
                              'by-name table in step' % (f.short, unparse(tgt)),
                          key='C02-R1|%s|direct-%s' % (f.qualname, tgt.attr))
                continue
            n_writes += 1
            # an assignment must reset the paired tables in the same block
            blk = path_info(f.node).block_of.get(id(n))
            sibs = [unparse(s) for s in (blk[0] if blk else [])]
            owner = unparse(tgt.value)
            need = REG_PAIRS[tgt.attr]
            if tgt.attr == 'routes':
                need = ['route_by_name', 'routes_by_name']
            ok = all(any(s.startswith('%s.%s = ' % (owner, by)) for s in sibs) for by in need)
            ctx.check('C02-R1', ok, '%s: `%s = ...` resets %s alongside' % (
                f.short, unparse(tgt), need), '%s:%d' % (f.module.relpath, n.lineno),
                msg='%s assigns %s without resetting %s in the same block: the by-name tables '
                    'go stale' % (f.short, unparse(tgt), need),
                key='C02-R1|%s|assign-%s' % (f.qualname, tgt.attr))
    ctx.floor('C02-R1', n_writes, 6, 'registry assignments outside ApiNamespace')

    # ---------------- R2
    sa = pm.func(IRM + '.UserDefined.set_attributes')
    clears = [n for n in own_nodes(sa.node) if isinstance(n, ast.Assign) and
              unparse(n) == 'self._is_forward_ref = False']
    ok = len(clears) == 1 and sa.node.body[-1] is clears[0]
    ctx.check('C02-R2', ok, 'set_attributes clears _is_forward_ref as its last statement', sa.loc,
              msg='_is_forward_ref is cleared before the field-clash checks ran (or elsewhere)',
              key='C02-R2|%s|last' % sa.qualname)
    others = [f.short for f in pm.funcs_in('stone') for n in own_nodes(f.node)
              if isinstance(n, ast.Assign) and '_is_forward_ref' in unparse(n.targets[0])
              and f is not sa and f.name != '__init__']
    ctx.check('C02-R2', not others, '_is_forward_ref is written only by __init__ and set_attributes',
              sa.loc, msg='_is_forward_ref is also written by %s' % others,
              key='C02-R2|writers')
    for cname in ('Struct', 'Union'):
        m = pm.func('%s.%s.set_attributes' % (IRM, cname))
        sup = [c for c in own_nodes(m.node) if isinstance(c, ast.Call) and
               unparse(c.func) == 'super().set_attributes']
        ctx.check('C02-R2', len(sup) == 1 and [unparse(a) for a in sup[0].args] ==
                  ['doc', 'fields', 'parent_type'],
                  '%s.set_attributes delegates doc, fields, parent to the base' % cname, m.loc,
                  msg='%s.set_attributes no longer forwards doc/fields/parent_type' % cname,
                  key='C02-R2|%s|super' % m.qualname)
    pta = pm.func(GEN + '._populate_type_attributes')
    pi = path_info(pta.node)
    cont = [n for n in own_nodes(pta.node) if isinstance(n, ast.Continue)]
    ok = len(cont) == 1 and [(unparse(e), pol) for e, pol in pi.at(cont[0])] == \
        [('data_type._is_forward_ref', False)]
    ctx.check('C02-R2', ok, '_populate_type_attributes skips only already populated types',
              pta.loc, msg='_populate_type_attributes skips types under another condition',
              key='C02-R2|%s|skip' % pta.qualname)
    al = [l for l in own_nodes(pta.node) if isinstance(l, ast.For) and
          unparse(l.iter) == 'namespace.aliases']
    ok = len(al) == 1 and any(isinstance(c, ast.Call) and unparse(c.func) == 'alias.set_attributes'
                              for c in ast.walk(al[0])) and \
        any(isinstance(c, ast.Call) and unparse(c.func) == 'alias.set_annotations'
            for c in ast.walk(al[0]))
    ctx.check('C02-R2', ok, 'every alias gets set_attributes and set_annotations', pta.loc,
              msg='aliases are no longer all populated', key='C02-R2|%s|aliases' % pta.qualname)
    disp = {}
    for c in own_nodes(pta.node):
        if isinstance(c, ast.Call) and call_name(c) in ('_populate_struct_type_attributes',
                                                        '_populate_union_type_attributes'):
            disp[call_name(c)] = reaching_classes(pm, irf, pta, c, 'data_type',
                                                  universe=frozenset({'Struct', 'Union'}))
    ctx.check('C02-R2', disp == {'_populate_struct_type_attributes': {'Struct'},
                                 '_populate_union_type_attributes': {'Union'}},
              'structs and unions are populated by their own populator', pta.loc,
              msg='population dispatch changed: %s' % disp,
              key='C02-R2|%s|dispatch' % pta.qualname)
    from .C01 import on_demand_population
    on_demand_population(pm, ctx, 'C02-R2')
    # route attributes
    rh = pm.func(GEN + '._populate_route_attributes_helper')
    sa_c = [c for c in own_nodes(rh.node) if isinstance(c, ast.Call) and
            unparse(c.func) == 'route.set_attributes']
    kws = {k.arg: unparse(k.value) for k in sa_c[0].keywords} if len(sa_c) == 1 else {}
    ctx.check('C02-R2', kws == {'deprecated': 'deprecated', 'doc': 'route._ast_node.doc',
                                'arg_data_type': 'arg_dt', 'result_data_type': 'result_dt',
                                'error_data_type': 'error_dt', 'attrs': 'validated_attrs'},
              'route.set_attributes receives deprecation, doc, the three resolved types and the '
              'validated attrs', rh.loc, msg='route population changed: %s' % kws,
              key='C02-R2|%s|route' % rh.qualname)
    dd = defs(rh.node)
    for loc_, attr in (('arg_dt', 'arg_type_ref'), ('result_dt', 'result_type_ref'),
                       ('error_dt', 'error_type_ref')):
        v = [unparse(x) for x in dd.all_values(loc_)]
        ctx.check('C02-R2', v == ['self._resolve_type(env, route._ast_node.%s)' % attr],
                  '%s resolves %s' % (loc_, attr), rh.loc,
                  msg='%s is computed as %s' % (loc_, v), key='C02-R2|%s|%s' % (rh.qualname, loc_))

    # ---------------- R3
    an = pm.func(API + '.Api.normalize')
    src = ' ; '.join(unparse(s) for s in an.node.body)
    ctx.check('C02-R3', 'sorted(self.namespaces.keys())' in src and
              'namespace.normalize()' in src and 'self.namespaces = ordered_namespaces' in src,
              'Api.normalize orders namespaces by name and normalises each', an.loc,
              msg='Api.normalize no longer sorts namespaces / normalises each',
              key='C02-R3|%s' % an.qualname)
    nn = pm.func(API + '.ApiNamespace.normalize')
    sorts = {}
    for c in own_nodes(nn.node):
        if isinstance(c, ast.Call) and isinstance(c.func, ast.Attribute) and c.func.attr == 'sort':
            key = [unparse(k.value) for k in c.keywords if k.arg == 'key']
            sorts[unparse(c.func.value)] = key[0] if key else None
    for reg in ('routes', 'data_types', 'aliases', 'annotations'):
        k = sorts.get('self.' + reg, 'MISSING')
        good = k is None if reg == 'routes' else (k is not None and k != 'MISSING' and
                                                  k.endswith('.name'))
        ctx.check('C02-R3', good and k != 'MISSING', 'ApiNamespace.normalize sorts %s%s' % (
            reg, '' if reg == 'routes' else ' by name'), nn.loc,
            msg='ApiNamespace.normalize no longer sorts %s by name' % reg,
            key='C02-R3|%s|%s' % (nn.qualname, reg))
    rlt = pm.func(API + '.ApiRoute._compare')
    ctx.check('C02-R3', '(lhs.name, lhs.version) < (rhs.name, rhs.version)' in
              ' '.join(unparse(n) for n in own_nodes(rlt.node) if isinstance(n, ast.Compare)),
              'routes order by (name, version)', rlt.loc,
              msg='route ordering is no longer (name, version)', key='C02-R3|%s' % rlt.qualname)

    # ---------------- R4
    linearize_order(pm, ctx, irf)

    # ---------------- R5
    af = pm.func(IRM + '.Struct.all_fields')
    ctx.check('C02-R5', returns_text(af.node) ==
              'self.all_required_fields + self.all_optional_fields',
              'Struct.all_fields = all_required_fields + all_optional_fields', af.loc,
              msg='Struct.all_fields is no longer required fields followed by optional fields',
              key='C02-R5|%s' % af.qualname)
    ff = pm.func(IRM + '.Struct._filter_fields')
    body = [unparse(s) for s in ff.node.body if not isinstance(s, ast.Expr) or
            not isinstance(s.value, ast.Constant)]
    try:
        i_par = next(i for i, s in enumerate(body) if 'self.parent_type._filter_fields' in s)
        i_own = next(i for i, s in enumerate(body) if 'filter(filter_function, self.fields)' in s)
    except StopIteration:
        i_par = i_own = -1
    ctx.check('C02-R5', 0 <= i_par < i_own, '_filter_fields lists inherited fields first', ff.loc,
              msg='_filter_fields no longer puts the parent\'s fields first',
              key='C02-R5|%s' % ff.qualname)
    req = pm.func(IRM + '.Struct.all_required_fields')
    opt = pm.func(IRM + '.Struct.all_optional_fields')

    def pred(f):
        for g in f.nested.values():
            r = [n for n in own_nodes(g.node) if isinstance(n, ast.Return)]
            if len(r) == 1:
                return r[0].value
        return None

    def k(e):
        t = unparse(e)
        return {'is_nullable_type(f.data_type)': 'nullable', 'f.has_default': 'default'}.get(
            t, ('other', t))
    pr, po = pred(req), pred(opt)
    ok = False
    if pr is not None and po is not None:
        kr, tr = truth_table(pr, k)
        ko, to = truth_table(po, k)
        ok = kr == ko == ['default', 'nullable'] and all(tr[a] != to[a] for a in tr) and \
            all(to[a] == (a[0] or a[1]) for a in to)
    ctx.check('C02-R5', ok, 'required = not nullable and no default; optional is its complement',
              req.loc, msg='the required/optional field predicates are no longer complementary '
                           'over {nullable, has_default}', key='C02-R5|predicates')
    uaf = pm.func(IRM + '.Union.all_fields')
    body = [unparse(s) for s in uaf.node.body]
    try:
        i_par = next(i for i, s in enumerate(body) if 'self.parent_type.all_fields' in s)
        i_own = next(i for i, s in enumerate(body) if 'self.fields' in s and 'parent_type' not in s)
    except StopIteration:
        i_par = i_own = -1
    ctx.check('C02-R5', 0 <= i_par < i_own, 'Union.all_fields lists inherited tags first', uaf.loc,
              msg='Union.all_fields no longer puts the parent\'s tags first',
              key='C02-R5|%s' % uaf.qualname)
    st = pm.func(IRM + '.Struct.get_all_subtypes_with_tags')
    ctx.check('C02-R5', any(isinstance(c, ast.Call) and unparse(c.func) == 'fifo.popleft'
                            for c in own_nodes(st.node)) and
              any(isinstance(c, ast.Call) and unparse(c.func) == 'fifo.append'
                  for c in own_nodes(st.node)),
              'get_all_subtypes_with_tags traverses the whole subtype tree breadth-first', st.loc,
              msg='the subtype traversal changed', key='C02-R5|%s' % st.qualname)

    # ---------------- R6
    pu = pm.func(GEN + '._populate_union_type_attributes')
    pi = path_info(pu.node)
    mk = [n for n in own_nodes(pu.node) if isinstance(n, ast.Assign) and
          unparse(n.targets[0]) == 'catch_all_field' and isinstance(n.value, ast.Call)]

    def k6(e):
        t = unparse(e)
        return {'data_type.closed': 'closed', 'parent_type': 'parent',
                'parent_type.closed': 'pclosed'}.get(t, ('other', t))
    ok = False
    if len(mk) == 1:
        tab = conds_truth(pi.at(mk[0]), k6, ['closed', 'parent', 'pclosed'])
        ok = all(v == ((not c) and ((not p) or pc)) for (c, p, pc), v in tab.items())
        kw = {k.arg: unparse(k.value) for k in mk[0].value.keywords}
        ok = ok and kw.get('name') == "'other'" and kw.get('catch_all') == 'True' and \
            kw.get('data_type') == 'Void()'
    ctx.check('C02-R6', ok, 'implicit `other` (Void, catch_all) exactly for an open union without '
              'an open parent', pu.loc,
              msg='the implicit catch-all is created under a different condition or shape',
              key='C02-R6|%s|condition' % pu.qualname)
    app = [c for c in own_nodes(pu.node) if isinstance(c, ast.Call) and
           unparse(c) == 'api_type_fields.append(catch_all_field)']
    ctx.check('C02-R6', len(app) == 1 and mk and pi.at(app[0]) == pi.at(mk[0]),
              'the catch-all field is appended to the union\'s fields', pu.loc,
              msg='the implicit catch-all is not appended to the field list',
              key='C02-R6|%s|append' % pu.qualname)
    rej = [n for n in own_nodes(pu.node) if isinstance(n, ast.Raise) and
           any(unparse(e) == "stone_field.name == 'other'" and pol for e, pol in pi.at(n))]
    ctx.check('C02-R6', len(rej) == 1, 'a user tag named other is refused', pu.loc,
              msg='user tags named `other` are no longer refused', key='C02-R6|%s|reserved'
              % pu.qualname)
    sa_c = [c for c in own_nodes(pu.node) if isinstance(c, ast.Call) and
            unparse(c.func) == 'data_type.set_attributes']
    ctx.check('C02-R6', len(sa_c) == 1 and [unparse(a) for a in sa_c[0].args][-1] ==
              'catch_all_field', 'set_attributes receives the catch-all field', pu.loc,
              msg='the catch-all field is not handed to set_attributes',
              key='C02-R6|%s|handed' % pu.qualname)

    # ---------------- R7
    registries = ('_item_by_canonical_name', '_patch_data_by_canonical_name',
                  '_env_by_namespace')
    n_st = 0
    for f in pm.funcs_in('stone.frontend.ir_generator'):
        pi = path_info(f.node)
        for n in own_nodes(f.node):
            if isinstance(n, ast.Assign) and isinstance(n.targets[0], ast.Subscript) and \
                    isinstance(n.targets[0].value, ast.Attribute) and \
                    n.targets[0].value.attr in registries:
                n_st += 1
                reg = unparse(n.targets[0].value)
                key = unparse(n.targets[0].slice)
                tested = any(isinstance(e, ast.Compare) and
                             isinstance(e.ops[0], (ast.In, ast.NotIn)) and
                             unparse(e.comparators[0]) == reg and unparse(e.left) == key and
                             (pol == isinstance(e.ops[0], ast.NotIn))
                             for e, pol in pi.at(n))
                exempt = f.name == 'generate_IR' and reg.endswith('_item_by_canonical_name')
                if exempt:
                    ctx.exempt('C02-R7', 'IRGenerator.generate_IR: _item_by_canonical_name[ns]',
                               'registers the namespace node; re-registering the same namespace '
                               'from a second file stores an equivalent node')
                ctx.check('C02-R7', tested or exempt,
                          '%s: store into %s[%s] after a membership test' % (f.short, reg, key),
                          '%s:%d' % (f.module.relpath, n.lineno),
                          msg='%s overwrites %s[%s] without testing whether the key is already '
                              'bound: an earlier declaration is silently dropped' % (
                                  f.short, reg, key),
                          key='C02-R7|%s|%s' % (f.qualname, reg))
    ctx.floor('C02-R7', n_st, 4, 'stores into name-keyed generator registries')

    # ---------------- R8
    for nm, parts in (('p_field', {'set_default': None, 'set_annotations': 'has_annotations',
                                   'set_doc': 'has_docstring'}),
                      ('p_field_void', {'set_annotations': 'p[4] is not None',
                                        'set_doc': 'p[5] is not None'}),
                      ('p_alias', {'set_annotations': 'has_annotations'}),
                      ('p_route', {'set_doc': None, 'set_attrs': None})):
        f = pm.func(PARSER + '.' + nm)
        pi = path_info(f.node)
        for setter, own in parts.items():
            calls = [c for c in own_nodes(f.node) if isinstance(c, ast.Call) and
                     isinstance(c.func, ast.Attribute) and c.func.attr == setter and
                     unparse(c.func.value) == 'p[0]']
            if not ctx.check('C02-R8', len(calls) >= 1, '%s calls p[0].%s' % (nm, setter), f.loc,
                             msg='%s no longer attaches %s' % (nm, setter[4:]),
                             key='C02-R8|%s|%s|present' % (f.qualname, setter)):
                continue
            for c in calls:
                other = [unparse(e) for e, pol in pi.at(c)
                         if any(x in unparse(e) for x in ('has_annotations', 'has_docstring',
                                                          'has_anony_def', 'p[4] is not None',
                                                          'p[5] is not None'))
                         and (own is None or unparse(e) != own)]
                ctx.check('C02-R8', not other, '%s: %s guarded only by its own presence test'
                          % (nm, setter), '%s:%d' % (f.module.relpath, c.lineno),
                          msg='%s attaches %s only when %s: a declaration with both parts loses '
                              'one' % (nm, setter[4:], other),
                          key='C02-R8|%s|%s|guard' % (f.qualname, setter))
    # constructor arguments of the AST nodes carry every component of the production
    for nm, cls, needed in (('make_struct', 'AstStructDef', {'name', 'extends', 'doc', 'subtypes',
                                                             'fields', 'examples'}),
                            ('make_union', 'AstUnionDef', {'name', 'extends', 'doc', 'fields',
                                                           'examples', 'closed'}),
                            ('p_struct_patch', 'AstStructPatch', {'name', 'fields', 'examples'}),
                            ('p_union_patch', 'AstUnionPatch', {'name', 'fields', 'examples',
                                                                'closed'}),
                            ('p_type_ref', 'AstTypeRef', {'name', 'args', 'nullable', 'ns'}),
                            ('p_foreign_type_ref', 'AstTypeRef', {'name', 'args', 'nullable',
                                                                  'ns'})):
        f = pm.func(PARSER + '.' + nm)
        calls = [c for c in own_nodes(f.node) if isinstance(c, ast.Call) and call_name(c) == cls]
        kws = {k.arg: unparse(k.value) for c in calls for k in c.keywords}
        ok = len(calls) == 1 and needed <= set(kws) and \
            all(v.startswith('p[') or v == 'None' for kk, v in kws.items() if kk in needed)
        distinct = len({v for kk, v in kws.items() if kk in needed and v != 'None'}) == \
            len([v for kk, v in kws.items() if kk in needed and v != 'None'])
        ctx.check('C02-R8', ok and distinct, '%s builds %s from distinct production components %s'
                  % (nm, cls, sorted(needed)), f.loc,
                  msg='%s no longer passes every component (%s) to %s, or passes one twice: %s'
                      % (nm, sorted(needed), cls, kws), key='C02-R8|%s|ctor' % f.qualname)

    # ---------------- R9: declared values survive even when they are falsy
    ctx.rule('C02-R9', 'absence of a declared value is tested with `is None`, never by truth value '
                       '(0, false, "" and 0.0 are declarable)')
    from ..truthiness import bool_uses, none_tests
    for q, name, what in (
            (IRM + '.StructField.check_attr_repr', 'attr', 'route attribute value'),
            (IRM + '.Struct.check_attr_repr', 'attr', 'route attribute value'),
            (IRM + '.Nullable.check_attr_repr', 'attr_field', 'route attribute'),
            (IRM + '.Primitive.check_attr_repr', 'attr_field', 'route attribute')):
        if q not in pm.functions:
            continue
        f = pm.func(q)
        uses = bool_uses(f.node, name)
        ctx.check('C02-R9', not uses, '%s never tests %s by truth value' % (f.short, name), f.loc,
                  msg='%s tests the %s `%s` by truth value (line %s): a declared 0, false or "" '
                      'is taken for "not given" and replaced by the schema default'
                      % (f.short, what, name, [u.lineno for u in uses]),
                  key='C02-R9|%s|%s' % (f.qualname, name))
    # the same discipline everywhere a declared value travels through the IR and the frontend
    value_names = ('default', 'default_value', 'attr', 'attr_val', 'attr_value',
                   'min_value', 'max_value', 'min_items', 'max_items', 'min_length',
                   'max_length', 'pattern')
    allowed = {
        ('stone.ir.data_types.List.__init__', 'min_items'):
            'only skips the min<=max comparison, which cannot fail for min_items == 0',
        ('stone.ir.data_types.List.__init__', 'max_items'):
            'max_items == 0 was refused two statements earlier',
        ('stone.ir.data_types.String.__init__', 'min_length'):
            'only skips the min<=max comparison, which cannot fail for min_length == 0',
        ('stone.ir.data_types.String.__init__', 'max_length'):
            'max_length == 0 was refused two statements earlier',
        ('stone.ir.data_types.String.__init__', 'pattern'):
            'an empty pattern matches everything: treating it as absent changes nothing',
    }
    n_funcs = 0
    for q, f in sorted(pm.functions.items()):
        if not (q.startswith('stone.ir.') or q.startswith('stone.frontend.')):
            continue
        n_funcs += 1
        for nm in value_names:
            uses = bool_uses(f.node, nm, include_nested=False)
            if not uses:
                continue
            if (q, nm) in allowed:
                ctx.exempt('C02-R9', '%s: %s' % (q, nm), allowed[(q, nm)])
                continue
            ctx.check('C02-R9', False, '%s never tests %s by truth value' % (f.short, nm), f.loc,
                      msg='%s tests the declared value `%s` by truth value (line %s): 0, false '
                          'or "" would be taken for "not given"' % (
                              f.short, nm, [u.lineno for u in uses]),
                      key='C02-R9|%s|%s' % (q, nm))
    ctx.extra['C02-R9_functions_scanned'] = n_funcs
    sf = pm.func(IRM + '.StructField.check_attr_repr')
    ctx.check('C02-R9', len(none_tests(sf.node, 'attr')) >= 2,
              'StructField.check_attr_repr decides absence by `attr is None`', sf.loc,
              msg='StructField.check_attr_repr no longer tests `attr is None`',
              key='C02-R9|%s|none-tests' % sf.qualname)

    ctx.import_rules(pm, 'C01', {'C01-R8'}, 'C02-R11',
                     'parser accumulators are reset for every file: declarations of one file do not '
                     'leak into the description of another (shared with C01-R8)')
    ir_helper_contracts(pm, ctx)
    from ..effects import run_decisions
    from ..ownership import OWN
    run_decisions(pm, ctx, 'C02-RD', OWN['C02'])
    from .. import exprdrift
    exprdrift.run(pm, ctx, 'C02-RE', OWN['C02'])
    from ..effects import run_calls
    run_calls(pm, ctx, 'C02-RC', OWN['C02'])
    from .. import memo
    memo.run(pm, ctx, 'C02-MK', OWN['C02'])
    from .. import interface
    interface.run(pm, ctx, 'C02-RI', OWN['C02'])
    from .. import mutation
    mutation.run(pm, ctx, 'C02-MU', OWN['C02'])
    from .. import grammar
    grammar.run(pm, ctx, 'C02-GR', which=('GR2','GR3'))


def linearize_order(pm, ctx, irf, rule='C02-R4'):
    """linearize_data_types / linearize_aliases place every parent (alias target) before its
    dependant: seen-test, recursion on the whole chain, then append."""
    for q, inner, rec_attr, kinds in (
            (API + '.ApiNamespace.linearize_data_types', 'add_data_type', 'parent_type',
             {'Struct', 'Union'}),
            (API + '.ApiNamespace.linearize_aliases', 'add_alias', 'data_type', None)):
        f = pm.func(q)
        g = f.nested.get(inner)
        if not ctx.check(rule, g is not None, '%s has its recursive helper' % f.short, f.loc,
                         msg='%s lost its recursive helper' % f.short,
                         key='%s|%s|helper' % (rule, q)):
            continue
        paths = [p for p in enumerate_paths(g.node)]
        good = True
        n_app = n_rec = 0
        for p in paths:
            calls = path_calls(p)
            app = [c for c in calls if isinstance(c.func, ast.Attribute) and
                   c.func.attr == 'append']
            rec = [c for c in calls if call_name(c) == inner]
            if app:
                n_app += 1
                # the seen-test must have been evaluated (negative) on the path
                good &= any('seen' in unparse(e) and isinstance(e, ast.Compare) and not pol
                            for e, pol in p.atoms)
                n_rec += bool(rec)
                for r in rec:
                    good &= r._ord < app[0]._ord and rec_attr in unparse(r.args[0])
        # (the helper recurses on some appending path: hoisting one level from the driver loop
        # leaves a grandparent behind its grandchild)
        ctx.check(rule, good and n_app >= 1 and n_rec >= 1,
                  '%s: seen-test, then recursion on .%s, then append (%d appending paths)' % (
                      f.short, rec_attr, n_app), g.loc,
                  msg='%s no longer places the %s before its dependant' % (f.short, rec_attr),
                  key='%s|%s|order' % (rule, q))
        # the recursion is taken for every kind that has a parent / for alias targets
        recs = [c for c in own_nodes(g.node) if isinstance(c, ast.Call) and call_name(c) == inner]
        if kinds is not None and len(recs) == 1:
            cls = reaching_classes(pm, irf, g, recs[0], 'data_type', universe=frozenset(kinds))
            ctx.check(rule, cls == kinds,
                      '%s hoists the parent of structs and unions alike' % f.short, g.loc,
                      msg='%s hoists parents only for %s' % (f.short, sorted(cls)),
                      key='%s|%s|kinds' % (rule, q))
        elif kinds is None:
            pi = path_info(g.node)
            ok = len(recs) == 1 and [(unparse(e), pol) for e, pol in pi.at(recs[0])
                                     if 'is_alias' in unparse(e)] == [
                                         ('is_alias(alias.data_type)', True)]
            ctx.check(rule, ok, '%s hoists an alias target that is itself an alias' % f.short,
                      g.loc, msg='%s hoists alias targets under another condition' % f.short,
                      key='%s|%s|kinds' % (rule, q))
        drv = [l for l in own_nodes(f.node) if isinstance(l, ast.For)]
        ctx.check(rule, len(drv) == 1 and unparse(drv[0].iter) in ('self.data_types',
                                                                      'self.aliases'),
                  '%s walks the whole registry' % f.short, f.loc,
                  msg='%s no longer walks the whole registry' % f.short,
                  key='%s|%s|driver' % (rule, q))



def ir_helper_contracts(pm, ctx, rule='C02-R12'):
    """The three unwrap helpers every consumer of the description relies on: each peels
    exactly the wrappers its name says, as long as any is left."""
    ctx.rule(rule, 'unwrap_nullable peels one Nullable and nothing else, unwrap_aliases peels '
                   'every Alias and nothing else, unwrap peels both kinds until neither is left')
    from ..model import call_name
    from ..pathcond import path_info

    def tests_of(f):
        names = set()
        for n in own_nodes(f.node):
            if isinstance(n, ast.Call) and call_name(n) in ('is_alias', 'is_nullable_type',
                                                            'unwrap_aliases', 'unwrap_nullable',
                                                            'unwrap', 'isinstance'):
                names.add(call_name(n))
                if call_name(n) == 'isinstance' and len(n.args) == 2:
                    names.add('isinstance:' + unparse(n.args[1]))
        return names
    un = pm.func(IRM + '.unwrap_nullable')
    t = tests_of(un)
    rets = [r for r in own_nodes(un.node) if isinstance(r, ast.Return)]
    pi = path_info(un.node)
    peeled = [r for r in rets if isinstance(r.value, ast.Tuple) and
              unparse(r.value.elts[0]) == un.params[0] + '.data_type']
    ok = t == {'is_nullable_type'} and len(peeled) == 1 and \
        [(unparse(e), p) for e, p in pi.at(peeled[0])] == [
            ('is_nullable_type(%s)' % un.params[0], True)]
    ctx.check(rule, ok, 'unwrap_nullable(dt) is (dt.data_type, True) exactly when dt itself is a '
                        'Nullable', un.loc,
              msg='unwrap_nullable now tests %s: a consumer that asks "is this reference nullable" '
                  'gets another answer (an alias is a type of its own for the backends that keep '
                  'aliases)' % sorted(t), key='%s|%s' % (rule, un.qualname))
    ua = pm.func(IRM + '.unwrap_aliases')
    t = tests_of(ua)
    loops = [n for n in own_nodes(ua.node) if isinstance(n, ast.While)]
    ok = t == {'is_alias'} and len(loops) == 1 and \
        unparse(loops[0].test) == 'is_alias(%s)' % ua.params[0]
    ctx.check(rule, ok, 'unwrap_aliases peels aliases, and only aliases, until none is left',
              ua.loc, msg='unwrap_aliases now tests %s' % sorted(t),
              key='%s|%s' % (rule, ua.qualname))
    uw = pm.func(IRM + '.unwrap')
    loops = [n for n in own_nodes(uw.node) if isinstance(n, ast.While)]
    ok = len(loops) == 1 and sorted(unparse(v) for v in getattr(loops[0].test, 'values', [])) == \
        sorted(['is_alias(%s)' % uw.params[0], 'is_nullable_type(%s)' % uw.params[0]]) and \
        isinstance(loops[0].test, ast.BoolOp) and isinstance(loops[0].test.op, ast.Or)
    ctx.check(rule, ok, 'unwrap peels aliases and nullables in any nesting until neither is left',
              uw.loc, msg='unwrap no longer loops while the type is an alias or a nullable: a '
                          'nullable between two alias layers (or the reverse) is left in place',
              key='%s|%s' % (rule, uw.qualname))
