"""Shared anchors and helpers for the serializer/validator runtime
(python_rsrc) rules: C04, C05, C06, C07, C08, C10, C13."""
import ast

from ..model import dotted, own_nodes, unparse

SER = 'stone.backends.python_rsrc.stone_serializers'
VAL = 'stone.backends.python_rsrc.stone_validators'
BASE = 'stone.backends.python_rsrc.stone_base'
HELP = 'stone.backends.helpers'
DEC = SER + '.PythonPrimitiveToStoneDecoder'
ENC = SER + '.StoneToPythonPrimitiveSerializer'
ENCBASE = SER + '.StoneSerializerBase'
PYTYPES = 'stone.backends.python_types'

NEW_STYLE_DECODERS = ('json_compat_obj_decode_helper', 'decode_struct', 'decode_struct_fields',
                      'decode_union', 'decode_union_dict', 'decode_struct_tree',
                      'determine_struct_tree_subtype', 'decode_list', 'decode_map',
                      'decode_nullable', 'make_stone_friendly')


def is_validation_error(pm, module, raise_node):
    exc = raise_node.exc
    if exc is None:
        return False
    e = exc.func if isinstance(exc, ast.Call) else exc
    r = pm.resolve_expr(module, e)
    return getattr(r, 'qualname', None) == VAL + '.ValidationError'


def last_assign_on_path(path, name, before=None):
    """Value expression of the last assignment to local ``name`` on the path
    (statements up to, not including, ``before``).  Returns ('value', expr),
    ('unpack', expr, index) or None."""
    last = None
    for s in path.stmts:
        if s is before:
            break
        if isinstance(s, ast.Assign):
            for t in s.targets:
                if isinstance(t, ast.Name) and t.id == name:
                    last = ('value', s.value)
                elif isinstance(t, (ast.Tuple, ast.List)):
                    for i, e in enumerate(t.elts):
                        if isinstance(e, ast.Name) and e.id == name:
                            if isinstance(s.value, (ast.Tuple, ast.List)) and \
                                    len(s.value.elts) == len(t.elts):
                                last = ('value', s.value.elts[i])
                            else:
                                last = ('unpack', s.value, i)
        elif isinstance(s, (ast.For, ast.AsyncFor)):
            for n in ast.walk(s.target):
                if isinstance(n, ast.Name) and n.id == name:
                    last = ('iter', s.iter)
    return last


def path_has_atom(path, pred):
    return any(pred(e, p) for e, p in path.atoms)


def isinstance_of(e, subject, classes):
    """``e`` is isinstance(subject, C) with C (or every member of a tuple C)
    named in ``classes`` (dotted names)."""
    if isinstance(e, ast.Call) and isinstance(e.func, ast.Name) and e.func.id == 'isinstance' \
            and len(e.args) == 2 and unparse(e.args[0]) == subject:
        c = e.args[1]
        names = [dotted(x) for x in (c.elts if isinstance(c, ast.Tuple) else [c])]
        return all(n in classes for n in names)
    return False


def stmts_with_calls(funcnode, attr):
    return [n for n in own_nodes(funcnode) if isinstance(n, ast.Call) and
            isinstance(n.func, ast.Attribute) and n.func.attr == attr]
