"""C13 -- omitted fields and redacted values never leak through serialization.

Structural part (DESIGN 4/C13): per-caller tables select fields by equality
with the caller; the coder reads per-permission tables only for the caller's
permissions; the redaction hook cannot be bypassed; redactors are emitted for
every annotated field/tag/alias and for every Redacted kind; the caller set
used to chain a child's tables to its parent's is closed over the ancestors.
"""
import ast

from ..model import call_name, own_nodes, unparse
from ..model import returns_text
from ..pathcond import path_info
from ._serial import BASE, DEC, ENC, ENCBASE, PYTYPES, SER, VAL, is_validation_error

PROP = 'C13'
IR = 'stone.ir.data_types'
EXPLANATION = (
    'Ownership and guard analysis of the permission/redaction machinery. R1: each construct of '
    'python_types that builds a per-caller table (_all_<c>_field_names_, _all_<c>_fields_, '
    '_<c>_tagmap) selects fields by (in)equality of field.omitted_caller with the loop caller, '
    'the public table being the None caller, and _permissioned_tagmaps lists all callers. R2: '
    'every read of a per-permission table in the runtime (encode_struct, decode_struct x2, '
    'validate_fields_only_with_permissions, Union._is_tag_present, Union._get_val_data_type) '
    'names the table with the loop variable of a loop over caller_permissions.permissions; '
    'encode_union and both decode_union forms test _is_tag_present(tag, caller_permissions) '
    'before using the tag; strict unknown-key rejection uses the permission-extended name set. '
    'R3: encode_<kind> methods are invoked only through encode_sub (and encode_struct from '
    'encode_struct_tree); every recursive encoding goes through self.encode_sub; the overriding '
    'encode_sub tests should_redact and _redact first and returns only _redact.apply results on '
    'that branch; redactor apply() never returns its argument. R4: _generate_redactor is called '
    'for every field, tag and alias carrying a redactor and covers every Redacted subclass. '
    'R5: the caller set deciding parent chaining is closed over the ancestor chain. Decides '
    'these structural parts, not the content of redacted strings.'
    ' RD (effect-condition drift, stonelint.effects): for the functions this property is anchored in (stonelint.ownership) the path formula of every raise / return / continue / break / assignment / call statement is compared with reference/effects.json by truth table over the leaf tests (so nested vs merged tests, guard clauses vs if/else ladders, De Morgan forms read alike); an effect lost on a path, or a control effect gained on one, is a violation; changed texts and re-spelled tests are not claimed.'
    " RE (expression drift, stonelint.exprdrift): the same functions' attribute names, variable reads, simple statements, calls and arithmetic/slice literals are compared with reference/expressions.json; a substituted attribute or variable, a dropped call or assignment, swapped arguments or a changed literal is a violation; any other edit is not claimed. RC (call-condition drift, stonelint.effects.run_calls): for every call of a repository or imported-library function in those functions, the path conditions of its occurrences are compared with reference/effects.json by truth table; an assignment under which the function used to make the call and now completes without it is a violation (tests on memo tables, emptiness of the iterated collection and earlier refusals excepted; re-spelled conditions are not claimed). MK (memo-key rule, stonelint.memo): a memo table or done-set the reference tree does not have must be keyed by every access path the skipped code reads, injectively and type-aware."
    ' RI (interface drift, stonelint.interface): constants and tables (folded values), compiled regular expressions (witness text), parameter defaults, special methods, base classes and caching decorators of the modules the property rests on are compared with reference/interface.json; only a concrete difference in what is computed is reported.'
    ' MU (mutation drift, stonelint.mutation): the functions the property rests on update in place only the caller-owned, class-level and module-level objects they updated on the confirmed tree, and have no new handler that swallows an exception (reference/mutations.json).')
ASSUMPTIONS = [
    'bb.Union.__init__ reads all tag maps by design: it builds a local value and nothing leaves '
    'the process without passing encode_union (exempt by name)',
    'regex groups of a redactor are revealed on purpose (documented behaviour of the annotation)',
]

ENCODE_KINDS = ('encode_list', 'encode_map', 'encode_nullable', 'encode_primitive',
                'encode_struct', 'encode_struct_tree', 'encode_union')


def _perm_loops(fnode):
    """for <v> in <x>.permissions loops of a function: {loop_var: loop}"""
    out = {}
    for n in own_nodes(fnode):
        if isinstance(n, ast.For) and isinstance(n.target, ast.Name) and \
                isinstance(n.iter, ast.Attribute) and n.iter.attr == 'permissions' and \
                'caller_permissions' in unparse(n.iter):
            out[n.target.id] = n
    return out


def run(pm, ctx):
    for r, t in (('C13-R1', 'per-caller tables select by equality with the caller'),
                 ('C13-R2', 'per-permission tables are read only for the caller\'s permissions; '
                            'tags are tested for presence under the caller\'s permissions'),
                 ('C13-R3', 'redaction hook not bypassable; redactors never return the clear text'),
                 ('C13-R4', 'redactor emitted for every annotated field/tag/alias and every '
                            'Redacted kind'),
                 ('C13-R5', 'caller set for parent chaining is closed over the ancestors')):
        ctx.rule(r, t)

    gs = pm.func(PYTYPES + '.PythonTypesBackend._generate_struct_class_reflection_attributes')
    gu = pm.func(PYTYPES + '.PythonTypesBackend._generate_union_class_reflection_attributes')

    # ---------------- R1
    for g, want in ((gs, 4), (gu, 1)):
        cmps = [n for n in own_nodes(g.node, include_nested=True) if isinstance(n, ast.Compare)
                and unparse(n.left) == 'field.omitted_caller']
        good = len(cmps) == want and all(
            unparse(c.comparators[0]) == 'omitted_caller' and
            isinstance(c.ops[0], (ast.Eq, ast.NotEq)) for c in cmps)
        # a != must guard a `continue`, a == must be a comprehension filter
        for c in cmps:
            par = c._parent
            if isinstance(c.ops[0], ast.NotEq):
                good &= isinstance(par, ast.If) and len(par.body) == 1 and \
                    isinstance(par.body[0], ast.Continue)
            else:
                good &= isinstance(par, ast.comprehension)
        ctx.check('C13-R1', good, '%s: %d per-caller selections by equality with the loop caller'
                  % (g.short, want), g.loc,
                  msg='%s selects per-caller fields differently (found %s)' % (
                      g.short, [unparse(c) for c in cmps]), key='C13-R1|%s|select' % g.qualname)
        loops = [n for n in own_nodes(g.node) if isinstance(n, ast.For) and
                 unparse(n.target) == 'omitted_caller']
        from ..dataflow import defs as _defs
        dd = _defs(g.node)
        # def-use closure of the iterable (through locals, any depth): the set of callers must
        # contain the type's own callers and the public (None) caller.  Ordering is C12's
        # concern, not this property's.
        srcs, seen_n, todo = [], set(), [loops[0].iter] if loops else []
        while todo:
            e = todo.pop()
            srcs.append(unparse(e))
            for x in ast.walk(e):
                if isinstance(x, ast.Name) and x.id not in seen_n:
                    seen_n.add(x.id)
                    todo.extend(dd.all_values(x.id))
                if isinstance(x, ast.Call) and isinstance(x.func, ast.Attribute) and \
                        x.func.attr in ('extend', 'update', 'append', 'add'):
                    pass
        # in-place growth of the iterated collection counts as part of it
        if loops:
            for n in own_nodes(g.node):
                if isinstance(n, ast.Call) and isinstance(n.func, ast.Attribute) and \
                        n.func.attr in ('extend', 'update') and \
                        isinstance(n.func.value, ast.Name) and n.func.value.id in seen_n:
                    for a in n.args:
                        srcs.append(unparse(a))
                        for x in ast.walk(a):
                            if isinstance(x, ast.Name) and x.id not in seen_n:
                                seen_n.add(x.id)
                                srcs.extend(unparse(v) for v in dd.all_values(x.id))
        ok = len(loops) == 1 and any('{None}' in t for t in srcs) and \
            any('get_all_omitted_callers()' in t for t in srcs)
        ctx.check('C13-R1', ok, '%s: one table set per caller of the type, incl. the public (None) '
                  'caller' % g.short, g.loc,
                  msg='%s no longer iterates the type\'s callers together with the public (None) '
                      'caller' % g.short,
                  key='C13-R1|%s|callers' % g.qualname)
        pub = [n for n in own_nodes(g.node) if isinstance(n, ast.Assign) and
               unparse(n.targets[0]) == 'is_public']
        ctx.check('C13-R1', len(pub) == 1 and unparse(pub[0].value) == 'omitted_caller is None',
                  '%s: the public table is the None caller' % g.short, g.loc,
                  msg='is_public is no longer `omitted_caller is None`',
                  key='C13-R1|%s|public' % g.qualname)
    # names of the per-caller tables the generator emits must be the names the runtime reads
    emitted = set()
    for g in (gs, gu):
        for n in own_nodes(g.node):
            if isinstance(n, ast.Constant) and isinstance(n.value, str):
                for frag in ('_all{}_field_names_', '_all{}_fields_', '_{}_tagmap'):
                    if frag in n.value:
                        emitted.add(frag)
    ctx.check('C13-R1', emitted == {'_all{}_field_names_', '_all{}_fields_', '_{}_tagmap'},
              'generator emits _all<c>_field_names_, _all<c>_fields_, _<c>_tagmap', gs.loc,
              msg='per-caller table name templates changed: %s' % sorted(emitted),
              key='C13-R1|table-names')
    pref = [n for n in own_nodes(gs.node) if isinstance(n, ast.Assign) and
            unparse(n.targets[0]) == 'map_name_prefix']
    ctx.check('C13-R1', len(pref) == 1 and unparse(pref[0].value) ==
              "'' if is_public else '_{}'.format(omitted_caller)",
              'struct table infix is "" (public) or _<caller>', gs.loc,
              msg='map_name_prefix changed', key='C13-R1|%s|prefix' % gs.qualname)
    ptm = [n for n in own_nodes(gu.node) if isinstance(n, ast.Call) and call_name(n) == 'emit' and
           n.args and '_permissioned_tagmaps' in unparse(n.args[0])]
    ctx.check('C13-R1', len(ptm) == 1 and 'all_omitted_callers' in unparse(ptm[0].args[0]),
              'union lists every caller in _permissioned_tagmaps', gu.loc,
              msg='_permissioned_tagmaps no longer lists all omitted callers',
              key='C13-R1|%s|tagmaps' % gu.qualname)

    # ---------------- R2
    readers = [
        (pm.func(ENC + '.encode_struct'), ["'_all_{}_fields_'"]),
        (pm.func(DEC + '.decode_struct'), ["'_all_{}_fields_'", "'_all_{}_field_names_'"]),
        (pm.func(VAL + '.Struct.validate_fields_only_with_permissions'),
         ["'_all_{}_field_names_'"]),
        (pm.func(BASE + '.Union._is_tag_present'), ["'_{}_tagmap'"]),
        (pm.func(BASE + '.Union._get_val_data_type'), ["'_{}_tagmap'"]),
    ]
    all_templates = ("'_all_{}_fields_'", "'_all_{}_field_names_'", "'_{}_tagmap'")
    for f, templates in readers:
        loops = _perm_loops(f.node)
        found = []
        for n in own_nodes(f.node):
            if isinstance(n, ast.Call) and isinstance(n.func, ast.Attribute) and \
                    n.func.attr == 'format' and unparse(n.func.value) in all_templates:
                tmpl = unparse(n.func.value)
                arg = n.args[0] if n.args else None
                inside = isinstance(arg, ast.Name) and any(
                    isinstance(p, ast.For) and isinstance(p.target, ast.Name) and
                    p.target.id == arg.id and isinstance(p.iter, ast.Attribute) and
                    p.iter.attr == 'permissions' and 'caller_permissions' in unparse(p.iter)
                    for p in _parents(n))
                found.append(tmpl)
                ctx.check('C13-R2', inside, '%s: %s named from the caller\'s permission loop'
                          % (f.short, tmpl), '%s:%d' % (f.module.relpath, n.lineno),
                          msg='%s reads %s outside a loop over caller_permissions.permissions'
                              % (f.short, tmpl), key='C13-R2|%s|%s' % (f.qualname, tmpl))
        ctx.check('C13-R2', sorted(found) == sorted(templates),
                  '%s reads exactly %s' % (f.short, templates), f.loc,
                  msg='%s reads per-permission tables %s (expected %s)' % (
                      f.short, found, templates), key='C13-R2|%s|reads' % f.qualname)
    # no other function of the runtime builds a per-permission table name
    exempt = {BASE + '.Union.__init__'}
    ctx.exempt('C13-R2', 'bb.Union.__init__', 'reads all tag maps to build a local value; '
               'nothing leaves the process without passing encode_union')
    reader_names = {f.qualname for f, _ in readers} | exempt
    for f in pm.funcs_in(SER, VAL, BASE):
        if f.qualname in reader_names:
            continue
        for n in own_nodes(f.node):
            if isinstance(n, ast.Constant) and isinstance(n.value, str) and \
                    ('_all_{}_field' in n.value or '_{}_tagmap' in n.value):
                ctx.check('C13-R2', False, '%s builds no per-permission table name' % f.short,
                          '%s:%d' % (f.module.relpath, n.lineno),
                          msg='%s builds the per-permission table name %r outside the audited '
                              'readers' % (f.short, n.value),
                          key='C13-R2|%s|unaudited-reader' % f.qualname)
    # tag presence under the caller's permissions
    eu = pm.func(ENC + '.encode_union')
    pi = path_info(eu.node)
    uses = [n for n in own_nodes(eu.node) if isinstance(n, ast.Call) and
            call_name(n) == '_get_val_data_type']
    good = len(uses) == 1 and any(
        isinstance(e, ast.Call) and call_name(e) == '_is_tag_present' and pol and
        [unparse(a) for a in e.args] == ['value._tag', 'self.caller_permissions']
        for e, pol in pi.at(uses[0])) and \
        [unparse(a) for a in uses[0].args] == ['value._tag', 'self.caller_permissions']
    ctx.check('C13-R2', good, 'encode_union refuses a tag the caller may not see before using it',
              eu.loc, msg='encode_union uses a tag without _is_tag_present(tag, caller_permissions)',
              key='C13-R2|%s|presence' % eu.qualname)
    rs = [n for n in own_nodes(eu.node) if isinstance(n, ast.Raise) and
          any(isinstance(e, ast.Call) and call_name(e) == '_is_tag_present' and not pol
              for e, pol in pi.at(n))]
    ctx.check('C13-R2', len(rs) == 1 and is_validation_error(pm, eu.module, rs[0]),
              'encode_union raises ValidationError for an inaccessible tag', eu.loc,
              msg='encode_union does not reject an inaccessible tag',
              key='C13-R2|%s|reject' % eu.qualname)
    for name in ('decode_union', 'decode_union_dict'):
        f = pm.func(DEC + '.' + name)
        pi = path_info(f.node)
        for n in own_nodes(f.node):
            if isinstance(n, ast.Call) and call_name(n) in ('_is_tag_present', '_get_val_data_type'):
                ctx.check('C13-R2', len(n.args) == 2 and unparse(n.args[1]) ==
                          'self.caller_permissions',
                          '%s: %s with the decoder\'s caller_permissions' % (f.short, call_name(n)),
                          '%s:%d' % (f.module.relpath, n.lineno),
                          msg='%s calls %s without the caller permissions' % (f.short, call_name(n)),
                          key='C13-R2|%s|%s-args' % (f.qualname, call_name(n)))
            if isinstance(n, ast.Call) and call_name(n) == '_get_val_data_type':
                ctx.check('C13-R2', any(isinstance(e, ast.Call) and call_name(e) ==
                                        '_is_tag_present' and pol for e, pol in pi.at(n)),
                          '%s: tag type looked up only after the presence test' % f.short,
                          '%s:%d' % (f.module.relpath, n.lineno),
                          msg='%s looks up a tag without the presence test' % f.short,
                          key='C13-R2|%s|presence' % f.qualname)
    # _is_tag_present: public map first, then only permission loop
    itp = pm.func(BASE + '.Union._is_tag_present')
    rets = [n for n in own_nodes(itp.node) if isinstance(n, ast.Return)]
    pi = path_info(itp.node)
    trues = [r for r in rets if unparse(r.value) == 'True']
    loops = _perm_loops(itp.node)
    good = len(trues) == 2 and any(unparse(e) == 'tag in cls._tagmap' and pol
                                   for r in trues for e, pol in pi.at(r)) and \
        any(any(p in loops.values() for p in _parents(r)) for r in trues) and \
        any(unparse(r.value) == 'False' for r in rets)
    ctx.check('C13-R2', good, '_is_tag_present: public tag map or a map of the caller\'s permissions',
              itp.loc, msg='_is_tag_present grants tags differently',
              key='C13-R2|%s|logic' % itp.qualname)
    # strict key rejection uses the extended name set
    ds = pm.func(DEC + '.decode_struct')
    rej = [n for n in own_nodes(ds.node) if isinstance(n, ast.Compare) and
           isinstance(n.ops[0], ast.NotIn) and unparse(n.comparators[0]) == 'all_field_names']
    unions = [n for n in own_nodes(ds.node) if isinstance(n, ast.Assign) and
              unparse(n.targets[0]) == 'all_field_names' and 'union' in unparse(n.value)]
    ctx.check('C13-R2', len(rej) == 1 and len(unions) == 1,
              'strict unknown-key test uses the permission-extended name set', ds.loc,
              msg='strict key rejection no longer uses the permission-extended name set',
              key='C13-R2|%s|strict-names' % ds.qualname)

    # ---------------- R3
    ser_funcs = pm.funcs_in(SER)
    n_calls = 0
    for f in ser_funcs:
        for n in own_nodes(f.node, include_nested=True):
            if isinstance(n, ast.Attribute) and n.attr in ENCODE_KINDS and \
                    isinstance(n.value, ast.Name) and n.value.id == 'self' and \
                    isinstance(n.ctx, ast.Load):
                n_calls += 1
                par = n._parent
                in_sub = f.qualname == ENCBASE + '.encode_sub' and isinstance(par, ast.Assign)
                tree = f.qualname == ENC + '.encode_struct_tree' and n.attr == 'encode_struct'
                ctx.check('C13-R3', in_sub or tree,
                          '%s: self.%s only via the encode_sub dispatch' % (f.short, n.attr),
                          '%s:%d' % (f.module.relpath, n.lineno),
                          msg='%s calls self.%s directly, bypassing encode_sub and its redaction '
                              'hook' % (f.short, n.attr),
                          key='C13-R3|%s|direct-%s' % (f.qualname, n.attr))
    ctx.floor('C13-R3', n_calls, 9, 'references to encode_<kind> methods')
    # the validator handed to encode_sub is the object found in the reflection table (the one
    # that carries _redact), never one already unwrapped from it in the same function
    from ..dataflow import reaching
    n_sub = 0
    for f in ser_funcs:
        if not f.qualname.startswith(ENC + '.encode_'):
            continue
        for c in own_nodes(f.node):
            if not (isinstance(c, ast.Call) and call_name(c) == 'encode_sub' and c.args and
                    isinstance(c.args[0], ast.Name)):
                continue
            n_sub += 1
            nm = c.args[0].id
            vals, _live = reaching(f.node, nm, c)
            unwrapped = [st.lineno for kind, v, st in vals
                         if isinstance(v, ast.Attribute) and isinstance(v.value, ast.Name) and
                         v.value.id == nm]
            ctx.check('C13-R3', not unwrapped,
                      '%s passes the table validator %s to encode_sub before any unwrapping' % (
                          f.short, nm), '%s:%d' % (f.module.relpath, c.lineno),
                      msg='%s can call encode_sub with %s already unwrapped (rebinding at line '
                          '%s): a redactor attached to the wrapping validator is skipped'
                          % (f.short, nm, unwrapped),
                      key='C13-R3|%s|unwrapped-%s' % (f.qualname, nm))
    ctx.floor('C13-R3', n_sub, 2, 'encode_sub calls on a named validator')
    # recursive encodings go through self.encode_sub
    for name, min_calls in (('encode_list', 1), ('encode_map', 2), ('encode_nullable', 1),
                            ('encode_struct', 1), ('encode_union', 1)):
        f = pm.func(ENC + '.' + name)
        subs = [n for n in own_nodes(f.node, include_nested=True) if isinstance(n, ast.Call) and
                unparse(n.func) == 'self.encode_sub']
        ctx.check('C13-R3', len(subs) >= min_calls,
                  '%s recurses through self.encode_sub (%d sites)' % (f.short, len(subs)), f.loc,
                  msg='%s no longer encodes its parts through self.encode_sub' % f.short,
                  key='C13-R3|%s|recursion' % f.qualname)
    base_encode = pm.func(ENCBASE + '.encode')
    ctx.check('C13-R3', returns_text(base_encode.node) ==
              'self.encode_sub(validator, value)', 'encode() enters through encode_sub',
              base_encode.loc, msg='encode() bypasses encode_sub',
              key='C13-R3|%s' % base_encode.qualname)
    # the override: the class that encodes for output must itself override the dispatch entry
    # (the class still being there and the method gone is a removed hook, not a moved anchor)
    if pm.has_func(ENC + '.encode') or (ENC in pm.classes):
        if not pm.has_func(ENC + '.encode_sub'):
            enc_cls = pm.cls(ENC)
            ctx.check('C13-R3', False, 'the output serializer overrides encode_sub with the '
                                       'redaction test', enc_cls.module.relpath,
                      msg='%s no longer overrides encode_sub: every recursive encoding (list items, '
                          'map values, nested members) goes through the base dispatch without the '
                          'redaction test' % enc_cls.name,
                      key='C13-R3|%s.encode_sub|first' % ENC)
            return
    ov = pm.func(ENC + '.encode_sub')
    # the first statement that does anything: docstrings and assignments of constants to
    # locals are skipped
    first = None
    for st_ in ov.node.body:
        if isinstance(st_, ast.Expr) and isinstance(st_.value, ast.Constant):
            continue
        if isinstance(st_, ast.Assign) and isinstance(st_.value, ast.Constant) and \
                all(isinstance(t_, ast.Name) for t_ in st_.targets):
            continue
        first = st_
        break
    good = isinstance(first, ast.If) and {unparse(v) for v in (
        first.test.values if isinstance(first.test, ast.BoolOp) and
        isinstance(first.test.op, ast.And) else [first.test])} == {
            'self.should_redact', "hasattr(validator, '_redact')"}
    ctx.check('C13-R3', good, 'encode_sub override tests should_redact and _redact before anything '
              'else', ov.loc, msg='the redaction test is no longer the first statement of '
                                  'encode_sub or tests something else',
              key='C13-R3|%s|first' % ov.qualname)
    if good:
        rets = [n for n in ast.walk(first) if isinstance(n, ast.Return)]
        allapply = bool(rets)
        for r in rets:
            applies = [c for c in ast.walk(r.value) if isinstance(c, ast.Call) and
                       unparse(c.func) == 'validator._redact.apply']
            leaks = [x for x in ast.walk(r.value) if isinstance(x, ast.Name) and
                     isinstance(x.ctx, ast.Load) and
                     x.id in ('value', 'v') and not any(
                         x in list(ast.walk(a)) for a in applies) and
                     not isinstance(x._parent, (ast.comprehension,)) and
                     not (isinstance(x._parent, ast.Attribute) and x._parent.attr == 'items')]
            allapply &= bool(applies) and not leaks
        from ..pathcond import terminates
        ctx.check('C13-R3', allapply and terminates(first.body),
                  'the redaction branch returns only _redact.apply(...) results (%d returns)'
                  % len(rets), ov.loc,
                  msg='the redaction branch can return or fall through with clear text',
                  key='C13-R3|%s|apply-only' % ov.qualname)
    sr = pm.func(ENC + '.__init__')
    ctx.check('C13-R3', any(isinstance(n, ast.Assign) and unparse(n.targets[0]) ==
                            'self.should_redact' and unparse(n.value) == 'should_redact'
                            for n in own_nodes(sr.node)),
              'serializer stores should_redact as given', sr.loc,
              msg='should_redact is not stored from the constructor argument',
              key='C13-R3|%s|flag' % sr.qualname)
    for cname in ('HashRedactor', 'BlotRedactor'):
        f = pm.func('%s.%s.apply' % (VAL, cname))
        rets = [n for n in own_nodes(f.node) if isinstance(n, ast.Return)]
        bad = [r for r in rets if r.value is not None and
               any(isinstance(x, ast.Name) and x.id in ('val', 'val_to_hash')
                   for x in ast.walk(r.value))]
        ctx.check('C13-R3', rets and not bad, 'bv.%s.apply never returns its argument' % cname,
                  f.loc, msg='bv.%s.apply can return the clear-text value' % cname,
                  key='C13-R3|%s|no-clear-text' % f.qualname)

    # ---------------- R4
    gr = pm.func(PYTYPES + '.PythonTypesBackend._generate_redactor')
    from ..lattice import Family
    red = pm.cls(IR + '.Redacted')
    leaves = sorted(c.name for c in pm.subclasses(red, strict=True))
    handled = {}
    pi = path_info(gr.node)
    for n in own_nodes(gr.node):
        if isinstance(n, ast.Call) and call_name(n) == 'emit' and n.args:
            t = unparse(n.args[0])
            for e, pol in pi.at(n):
                if pol and isinstance(e, ast.Call) and call_name(e) == 'isinstance' and \
                        unparse(e.args[0]) == 'redactor':
                    handled[unparse(e.args[1])] = 'Hash' if 'HashRedactor' in t else (
                        'Blot' if 'BlotRedactor' in t else '?')
    ctx.check('C13-R4', sorted(handled) == leaves and
              handled.get('RedactedHash') == 'Hash' and handled.get('RedactedBlot') == 'Blot',
              '_generate_redactor covers every Redacted kind %s with its runtime redactor' % leaves,
              gr.loc, msg='_generate_redactor handles %s but the IR defines %s' % (handled, leaves),
              key='C13-R4|%s|kinds' % gr.qualname)
    sites = {
        PYTYPES + '.PythonTypesBackend._generate_struct_class_reflection_attributes':
            ('field.redactor', 'full_validator_name'),
        PYTYPES + '.PythonTypesBackend._generate_union_class_reflection_attributes':
            ('field.redactor', 'full_validator_name'),
        PYTYPES + '.PythonTypesBackend._generate_alias_definition':
            ('alias.redactor', 'validator_name'),
    }
    for q, (cond, target) in sites.items():
        f = pm.func(q)
        pi = path_info(f.node)
        calls = [n for n in own_nodes(f.node) if isinstance(n, ast.Call) and
                 call_name(n) == '_generate_redactor']
        good = len(calls) == 1 and [unparse(a) for a in calls[0].args] == [target, cond] and \
            [(unparse(e), pol) for e, pol in pi.at(calls[0])] == [(cond, True)]
        ctx.check('C13-R4', good, '%s emits a redactor exactly for annotated items' % f.short,
                  f.loc, msg='%s no longer emits _redact for every item with a redactor'
                             % f.short, key='C13-R4|%s|site' % f.qualname)
        # the redactor is attached to the validator object the tables reference
        if 'reflection' in q:
            defs_ = [n for n in own_nodes(f.node) if isinstance(n, ast.Assign) and
                     unparse(n.targets[0]) == 'full_validator_name']
            ctx.check('C13-R4', len(defs_) == 1, '%s: one validator object per field' % f.short,
                      f.loc, msg='validator naming changed',
                      key='C13-R4|%s|validator-name' % f.qualname)
    # annotation attachment: sibling duplicate-redactor checks
    for q in (IR + '.Field.set_annotations', IR + '.Alias.set_annotations'):
        f = pm.func(q)
        pi = path_info(f.node)
        st = [n for n in own_nodes(f.node) if isinstance(n, ast.Assign) and
              unparse(n.targets[0]) == 'self.redactor']
        good = len(st) == 1 and any(
            isinstance(e, ast.Call) and call_name(e) == 'isinstance' and
            unparse(e.args[1]) == 'Redacted' and pol for e, pol in pi.at(st[0])) and \
            any(unparse(e) == 'self.redactor' and not pol for e, pol in pi.at(st[0]))
        ctx.check('C13-R4', good, '%s stores a Redacted annotation once (duplicate rejected)'
                  % f.short, f.loc, msg='%s no longer stores/guards the redactor' % f.short,
                  key='C13-R4|%s|store' % f.qualname)
    # annotations are attached to every created field, void tags included
    from ..paths import enumerate_paths, path_calls
    for nm in ('_create_struct_field', '_create_union_field'):
        f = pm.func('stone.frontend.ir_generator.IRGenerator.' + nm)
        rp = [p for p in enumerate_paths(f.node) if p.end == 'return']
        good = bool(rp) and all(any(call_name(c) == 'set_annotations' and
                                    unparse(c.func.value) == unparse(p.end_node.value)
                                    for c in path_calls(p)) for p in rp)
        ctx.check('C13-R4', good, '%s attaches annotations on every returning path (%d paths)'
                  % (f.short, len(rp)), f.loc,
                  msg='%s can return a field without attaching its annotations (Omitted/Redacted '
                      'would be lost)' % f.short, key='C13-R4|%s|attach' % f.qualname)
    oc = pm.func(IR + '.Field.set_annotations')
    st = [n for n in own_nodes(oc.node) if isinstance(n, ast.Assign) and
          unparse(n.targets[0]) == 'self.omitted_caller']
    ctx.check('C13-R4', len(st) == 1 and unparse(st[0].value) == 'annotation.omitted_caller',
              'Field.set_annotations stores the Omitted caller', oc.loc,
              msg='omitted_caller is not stored from the annotation',
              key='C13-R4|%s|omitted' % oc.qualname)

    # ---------------- R5
    def walks_ancestors(fnode):
        return any(isinstance(n, ast.Assign) and isinstance(n.value, ast.Attribute) and
                   n.value.attr == 'parent_type' and
                   unparse(n.targets[0]) == unparse(n.value.value)
                   for n in own_nodes(fnode)) or \
            any(isinstance(n, ast.Attribute) and n.attr == 'all_fields'
                for n in own_nodes(fnode, include_nested=True))
    for g in (gs, gu):
        par = [n for n in own_nodes(g.node) if isinstance(n, ast.Assign) and
               unparse(n.targets[0]) == 'parent_omitted_callers']
        closed = False
        for a in par:
            if walks_ancestors(g.node):
                closed = True
            for c in ast.walk(a.value):
                if isinstance(c, ast.Call):
                    r = pm.resolve_expr(g.module, c.func)
                    cands = [r] if hasattr(r, 'node') else [
                        m for k in pm.classes.values() if k.module.name == IR
                        for m in [k.methods.get(call_name(c))] if m is not None]
                    if cands and all(walks_ancestors(m.node) for m in cands):
                        closed = True
        ctx.check('C13-R5', len(par) == 1 and closed,
                  '%s: the parent caller set is computed over the whole ancestor chain' % g.short,
                  g.loc,
                  msg='%s chains a child table to its parent\'s only for callers on the DIRECT '
                      'parent\'s own fields: a grandparent\'s permissioned fields are lost when '
                      'the middle type has none for that caller' % g.short,
                  key='C13-R5|%s|ancestor-closure' % g.qualname)
        uses = [n for n in own_nodes(g.node) if isinstance(n, ast.Assign) and
                unparse(n.targets[0]) == 'caller_in_parent']
        ctx.check('C13-R5', len(uses) == 1 and 'omitted_caller in parent_omitted_callers' in
                  unparse(uses[0].value) and 'is_public' in unparse(uses[0].value),
                  '%s: chaining decided by membership in that set (or public)' % g.short, g.loc,
                  msg='caller_in_parent no longer uses the ancestor caller set',
                  key='C13-R5|%s|uses' % g.qualname)

    # every permission the caller holds is consulted: a loop over caller_permissions.permissions
    # is left early only on a positive match, never because one permission has no table
    n_loops = 0
    for mod in ('stone.backends.python_rsrc.stone_base',
                'stone.backends.python_rsrc.stone_serializers',
                'stone.backends.python_rsrc.stone_validators'):
        for f in pm.funcs_in(mod):
            pif = path_info(f.node)
            for lp in own_nodes(f.node):
                if not (isinstance(lp, ast.For) and
                        unparse(lp.iter).endswith('caller_permissions.permissions')):
                    continue
                n_loops += 1
                loop_atoms = {id(e) for e, p in pif.at(lp)}
                bad = []
                for n in own_nodes(lp):
                    if isinstance(n, (ast.Break, ast.Return, ast.Raise)):
                        own = [(e, p) for e, p in pif.at(n) if id(e) not in loop_atoms]
                        match = any(p and any(isinstance(x, ast.Compare) and
                                              isinstance(x.ops[0], ast.In) for x in ast.walk(e))
                                    for e, p in own)
                        miss = isinstance(n, ast.Raise) and any(
                            (not p) and any(isinstance(x, ast.Call) and call_name(x) == 'hasattr'
                                            for x in ast.walk(e)) for e, p in own)
                        if isinstance(n, ast.Break) or not (match or miss):
                            bad.append('%s at line %d' % (type(n).__name__.lower(), n.lineno))
                ctx.check('C13-R2', not bad, '%s: the loop over the caller\'s permissions ends '
                          'early only on a match' % f.short,
                          '%s:%d' % (f.module.relpath, lp.lineno),
                          msg='%s leaves the loop over caller_permissions.permissions early (%s) '
                              'without a match: permissions listed after a permission the type '
                              'does not know are ignored' % (f.short, ', '.join(bad)),
                          key='C13-R2|%s|all-permissions' % f.qualname)
    ctx.floor('C13-R2', n_loops, 5, 'loops over caller_permissions.permissions')
    ctx.import_rules(pm, 'C08', {'C08-R4'}, 'C13-R6',
                     'a reference to an alias is emitted as the alias validator (which carries the '
                     'alias\'s redactor), never inlined (shared with C08-R4)')

    # ---------------- R8: an alias validator is built from the alias's direct target
    ctx.rule('C13-R8', 'the validator emitted for `alias B = A` is constructed from alias.data_type '
                       '(the direct target, emitted as A_validator: the object that carries A\'s '
                       'redactor), not from the type at the end of the alias chain')
    from ..conddrift import _subst_text
    gad = pm.func('stone.backends.python_types.PythonTypesBackend._generate_alias_definition')
    ctors = [c for c in own_nodes(gad.node) if isinstance(c, ast.Call) and
             call_name(c) == 'generate_validator_constructor']
    ctx.floor('C13-R8', len(ctors), 1, 'validator constructor calls in _generate_alias_definition')
    for c in ctors:
        arg = c.args[1] if len(c.args) > 1 else next(
            (k.value for k in c.keywords if k.arg == 'data_type'), None)
        t = _subst_text(gad, arg) if arg is not None else '?'
        ctx.check('C13-R8', t.strip('()') == 'alias.data_type',
                  'alias validator built from alias.data_type', gad.loc,
                  msg='the validator of an alias is built from %s, not from alias.data_type: '
                      '`alias B = A` no longer reuses A_validator, so a redactor attached to A is '
                      'lost for values typed B' % t,
                  key='C13-R8|%s' % gad.qualname)

    ctx.import_rules(pm, 'C02', {'C02-R12'}, 'C13-R7',
                     'the unwrap helpers of the IR peel exactly the wrappers their names say '
                     '(shared with C02-R12)')
    from ..effects import run_decisions
    from ..ownership import OWN
    run_decisions(pm, ctx, 'C13-RD', OWN['C13'])
    from .. import exprdrift
    exprdrift.run(pm, ctx, 'C13-RE', OWN['C13'])
    from ..effects import run_calls
    run_calls(pm, ctx, 'C13-RC', OWN['C13'])
    from .. import memo
    memo.run(pm, ctx, 'C13-MK', OWN['C13'])
    from .. import interface
    interface.run(pm, ctx, 'C13-RI', OWN['C13'])
    from .. import mutation
    mutation.run(pm, ctx, 'C13-MU', OWN['C13'])


def _parents(node):
    n = getattr(node, '_parent', None)
    while n is not None:
        yield n
        n = getattr(n, '_parent', None)
