"""Order drift (rule ``<ID>-RO``): the order in which a function updates an object and reads it.

The effect-condition rule compares *under which conditions* a statement runs and expression
drift *what* it computes; neither sees a statement that moved.  Moving a statement is harmless
unless it carries a dependence: ``desc.pop(0)`` hoisted above ``for item in desc[1:]`` makes the
loop skip an element, ``seen.add(x)`` moved below the recursion lets a cycle recurse for ever,
``self.cur_indent = n`` moved below an ``emit`` indents the wrong line.

Per function the reference (``reference/order.json``) keeps, for every variable (a local, a
parameter, ``self.attr``) the function updates -- a mutator method call, an item assignment, a
re-binding -- and every other statement reading that variable, whether the update comes before
(``<``) or after (``>``) the read in evaluation order (prefixed ``loop`` when a common loop
repeats both; updates and reads in opposite arms of one ``if`` are unordered and not recorded).
Pairs are keyed by the normalised text of the update and of the reading statement (or compound
head), so only statements the reference has are compared; a pair whose every recorded order
flipped is a violation.  A statement moved without crossing a dependent statement changes no
pair.
"""
import ast
import json
import os

from .model import own_nodes, unparse

MUTATORS = {'append', 'extend', 'insert', 'pop', 'remove', 'clear', 'update', 'sort', 'reverse',
            'setdefault', 'add', 'discard', 'popitem', 'appendleft', 'popleft',
            'difference_update', 'intersection_update', 'symmetric_difference_update'}
REF = os.path.join(os.path.dirname(os.path.dirname(os.path.abspath(__file__))), 'reference',
                   'order.json')
_SIMPLE = (ast.Assign, ast.AugAssign, ast.AnnAssign, ast.Expr, ast.Return, ast.Raise, ast.Delete,
           ast.Assert)


def _path(e):
    """'x' for a name, 'x.a' for an attribute of a name; None otherwise."""
    if isinstance(e, ast.Name):
        return e.id
    if isinstance(e, ast.Attribute) and isinstance(e.value, ast.Name):
        return '%s.%s' % (e.value.id, e.attr)
    return None


def _site(n, fnode):
    """(anchor node, key text) of the innermost simple statement or compound head holding n."""
    child, par = n, getattr(n, '_parent', None)
    while par is not None and par is not fnode:
        if isinstance(par, _SIMPLE):
            return par, unparse(par)
        if isinstance(par, (ast.If, ast.While)) and child is par.test:
            return par.test, '%s %s' % (type(par).__name__.lower(), unparse(par.test))
        if isinstance(par, (ast.For, ast.AsyncFor)) and child is par.iter:
            return par.iter, 'for %s in %s' % (unparse(par.target), unparse(par.iter))
        if isinstance(par, ast.withitem):
            return par, 'with %s' % unparse(par.context_expr)
        if isinstance(par, (ast.FunctionDef, ast.AsyncFunctionDef, ast.Lambda, ast.ClassDef)):
            return None, None
        child, par = par, getattr(par, '_parent', None)
    if isinstance(n, _SIMPLE):
        return n, unparse(n)
    return None, None


def _ancestors(n, fnode):
    out = []
    child, par = n, getattr(n, '_parent', None)
    while par is not None and par is not fnode:
        arm = next((a for a in ('body', 'orelse', 'finalbody', 'handlers')
                    if isinstance(getattr(par, a, None), list) and child in getattr(par, a)), None)
        out.append((par, arm))
        child, par = par, getattr(par, '_parent', None)
    return out


def pairs_of(f):
    """{'base|update text|reader text': sorted set of relations}"""
    node = f.node
    updates = []            # (base, anchor node, text)
    for n in own_nodes(node):
        if isinstance(n, ast.Call) and isinstance(n.func, ast.Attribute) and \
                n.func.attr in MUTATORS:
            b = _path(n.func.value)
            if b:
                updates.append((b, n, unparse(n)))
        elif isinstance(n, ast.Subscript) and isinstance(n.ctx, (ast.Store, ast.Del)):
            b = _path(n.value)
            st, _ = _site(n, node)
            if b and st is not None:
                updates.append((b, st, 'item of ' + unparse(n)))
        elif isinstance(n, (ast.Name, ast.Attribute)) and isinstance(n.ctx, ast.Store):
            b = _path(n)
            par = getattr(n, '_parent', None)
            if b and isinstance(par, (ast.Assign, ast.AugAssign, ast.AnnAssign)):
                updates.append((b, par, unparse(par)))
    if not updates:
        return {}
    bases = {b for b, _, _ in updates}
    reads = {}              # base -> [(anchor, key)]
    for n in own_nodes(node):
        if isinstance(n, (ast.Name, ast.Attribute)) and isinstance(n.ctx, ast.Load):
            b = _path(n)
            if b not in bases:
                continue
            par = getattr(n, '_parent', None)
            if isinstance(n, ast.Name) and isinstance(par, ast.Attribute) and \
                    _path(par) in bases and isinstance(par.ctx, ast.Load):
                continue        # counted as the longer path
            st, key = _site(n, node)
            if st is None:
                continue
            reads.setdefault(b, []).append((n, st, key))
    out = {}
    for b, m, mtext in updates:
        m_site, _ = _site(m, node)
        m_anc = _ancestors(m, node)
        for r, r_site, rkey in reads.get(b, ()):
            if r_site is m_site or any(x is m for x in ast.walk(r_site)) or \
                    (m_site is not None and any(x is r for x in ast.walk(m_site))):
                continue        # the update's own statement
            r_anc = _ancestors(r, node)
            rel = None
            common_loop = False
            for pa, arm_a in m_anc:
                for pb, arm_b in r_anc:
                    if pa is pb:
                        if isinstance(pa, ast.If) and arm_a != arm_b and \
                                {arm_a, arm_b} == {'body', 'orelse'}:
                            rel = 'x'
                        if isinstance(pa, (ast.For, ast.AsyncFor, ast.While)) and \
                                arm_a == 'body' and arm_b == 'body':
                            common_loop = True
            if rel == 'x':
                continue
            # an AugAssign / re-binding reads before it writes: the position of the statement
            mo = m._ord if isinstance(m, ast.Call) else getattr(m, '_ord_end', m._ord)
            rel = ('loop' if common_loop else '') + ('<' if mo < r._ord else '>')
            out.setdefault('%s|%s|%s' % (b, mtext, rkey), set()).add(rel)
    return {k: sorted(v) for k, v in out.items()}


def build_reference(pm):
    fns = {}
    for q, f in sorted(pm.functions.items()):
        p = pairs_of(f)
        if p:
            fns[q] = p
    return {'note': 'per function: update|reader pairs on one variable and their order at /repo '
                    'HEAD; see stonelint/orderdrift.py', 'functions': fns}


_CACHE = {}


def load_reference():
    if 'ref' not in _CACHE:
        try:
            _CACHE['ref'] = json.load(open(REF))['functions']
        except (OSError, ValueError, KeyError):
            _CACHE['ref'] = None
    return _CACHE['ref']


def run(pm, ctx, rule, patterns):
    from .model import AnalysisError
    from .ownership import select
    ctx.rule(rule, 'an update of a variable (mutator call, item assignment, re-binding) and a '
                   'statement reading that variable keep the order they have on the confirmed '
                   'tree (reference/order.json)')
    ref = load_reference()
    if ref is None:
        raise AnalysisError('anchor=reference/order.json')
    n = pairs = 0
    for f in select(pm, patterns):
        r = ref.get(f.qualname)
        if not r:
            continue
        n += 1
        cur = pairs_of(f)
        flipped = []
        for k, rel in r.items():
            c = cur.get(k)
            if c is None:
                continue
            pairs += 1
            flip = {'<': '>', '>': '<', 'loop<': 'loop>', 'loop>': 'loop<'}
            if not (set(rel) & set(c)) and {x.replace('loop', '') for x in c} == {
                    flip[x].replace('loop', '') for x in rel}:
                flipped.append((k, rel, c))
        b, m, rk = (flipped[0][0].split('|', 2) if flipped else ('', '', ''))
        ctx.check(rule, not flipped, '%s: updates and reads in the confirmed order' % f.short,
                  f.loc,
                  msg='%s: `%s` now runs %s `%s` (on the confirmed tree: %s): the statement reads '
                      'another state of %s' % (
                          f.short, m[:80], 'before' if flipped and '<' in flipped[0][2][0]
                          else 'after', rk[:80], 'after' if flipped and '<' in flipped[0][2][0]
                          else 'before', b),
                  key='%s|%s|%s' % (rule, f.qualname, m[:60]))
    ctx.extra['%s_functions' % rule] = n
    ctx.extra['%s_pairs' % rule] = pairs
    ctx.floor(rule, n, 1, 'functions compared with the reference')
