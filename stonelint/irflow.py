"""Which IR classes can a backend expression denote?  (class-lattice typing
of backend code, DESIGN A4 applied to consumers of the IR.)

``IRFlow.classes_at(func, node, expr)`` is ``{class: provenance}`` for the
concrete stone.ir classes (data types and the two field classes) the
expression can be an instance of when ``node`` executes, or None when the
expression is not IR-typed by any rule below.

Universes are seeded from
* the attribute schema (``x.data_type``, ``route.arg_data_type``, ...),
* ``unwrap_nullable``, loops over ``linearize_data_types()`` /
  ``get_all_subtypes_with_tags()`` / ``<struct-or-union>.fields``,
* tuple results of resolvable helpers (``mapped_list_info``),
* for parameters: every call site of the function -- Python call sites in the
  analysed modules and the call sites in the Jinja templates the function is
  bound into; a parameter iterated as a list takes the elements its callers
  put into that list;
and are narrowed by every class test on the structured path (reaching
definitions: a binding is considered only where it can reach the read; an
unconditional top-level rebinding kills the earlier ones).  For an attribute
path rooted at a parameter (``route.arg_data_type``) the tests the *callers*
apply to the same path on their argument are used as well.

A parameter whose function escapes as a value (other than into a template) or
has an unresolvable call site has no universe: nothing is claimed about it.
A function without any call site is unreachable in the analysed program and
contributes no classes.
"""
import ast

from .dataflow import defs
from .irattrs import ANY, TYPED_ATTRS
from .lattice import class_test
from .model import FuncInfo, call_name, own_nodes, unparse
from .pathcond import path_info

FIELD_LISTS = ('fields', 'all_fields', 'all_required_fields', 'all_optional_fields')


def _is_within(node, root):
    x = node
    while x is not None:
        if x is root:
            return True
        x = getattr(x, '_parent', None)
    return False


def _pos(node):
    """Position of a node in the (normalised) tree: its pre-order number when the model
    assigned one - source lines no longer say which statement comes first once arms were
    swapped or code was spliced in - else its line."""
    o = getattr(node, '_ord', None)
    return o if o is not None else node.lineno


def _ln(stmt):
    o = getattr(stmt, '_ord', None)
    if o is not None:
        return o
    ln = getattr(stmt, 'lineno', None)
    return ln if ln is not None else stmt.target.lineno


def _end(stmt):
    o = getattr(stmt, '_ord_end', None)
    if o is not None:
        return o
    ln = getattr(stmt, 'end_lineno', None)
    return ln if ln is not None else stmt.iter.end_lineno


def _loops_of(node):
    """[(loop, part)] enclosing ``node``; part is 'iter' or 'body'."""
    out = []
    child, par = node, getattr(node, '_parent', None)
    while par is not None:
        if isinstance(par, (ast.For, ast.AsyncFor)):
            out.append((par, 'iter' if child is par.iter else 'body'))
        elif isinstance(par, ast.While):
            out.append((par, 'body'))
        elif isinstance(par, (ast.FunctionDef, ast.AsyncFunctionDef, ast.Lambda)):
            break
        child, par = par, getattr(par, '_parent', None)
    return out


class IRFlow:
    def __init__(self, pm, ia, modules, template_analyses=(), preserve_aliases=False,
                 family=None, seed_hook=None):
        self.pm, self.ia = pm, ia
        self.fam = family or ia.fam
        self.seed_hook = seed_hook
        self.modules = tuple(modules)
        self.U = ia.backend_universe(preserve_aliases)
        self.funcs = [f for m in self.modules for f in pm.funcs_in(m)]
        self.sites = {}       # callee qualname -> [(caller, call)]
        self.escapes = set()  # qualnames used as values
        self.template_sites = {}  # callee qualname -> [Fact]
        self._index()
        for ta in template_analyses:
            for fact in ta.facts:
                if fact.kind == 'call' and fact.name in ta.callables:
                    self.template_sites.setdefault(ta.callables[fact.name].qualname, []).append(
                        fact)
        self._pu = {}
        self._busy = set()
        self.unknown = []   # diagnostics: why a universe is unknown

    # ------------------------------------------------------------ call sites
    def resolve(self, f, call):
        fn = call.func
        out = []
        if isinstance(fn, ast.Name):
            g = f
            while g is not None:
                if fn.id in g.nested:
                    return [g.nested[fn.id]]
                g = g.parent
            r = self.pm.resolve_expr(f.module, fn)
            if isinstance(r, FuncInfo):
                out.append(r)
        elif isinstance(fn, ast.Attribute) and isinstance(fn.value, ast.Name) and \
                fn.value.id == 'self':
            c = self._cls_of(f)
            if c is not None:
                m = self.pm.lookup_method(c, fn.attr)
                if m is not None:
                    out.append(m)
                for sub in self.pm.subclasses(c, strict=True):
                    if fn.attr in sub.methods and sub.methods[fn.attr] not in out:
                        out.append(sub.methods[fn.attr])
        return out

    @staticmethod
    def _cls_of(f):
        g = f
        while g is not None:
            if g.cls is not None:
                return g.cls
            g = g.parent
        return None

    def _all_funcs(self):
        seen = []

        def add(f):
            seen.append(f)
            for g in f.nested.values():
                add(g)
        for f in self.funcs:
            add(f)
        return seen

    def _index(self):
        for f in self._all_funcs():
            called = set()
            for n in own_nodes(f.node):
                if isinstance(n, ast.Call):
                    called.add(id(n.func))
                    for g in self.resolve(f, n):
                        self.sites.setdefault(g.qualname, []).append((f, n))
            for n in own_nodes(f.node):
                if id(n) in called:
                    continue
                r = None
                if isinstance(n, ast.Name) and isinstance(n.ctx, ast.Load):
                    r = self.pm.resolve_expr(f.module, n)
                elif isinstance(n, ast.Attribute) and isinstance(n.ctx, ast.Load) and \
                        isinstance(n.value, ast.Name) and n.value.id == 'self':
                    c = self._cls_of(f)
                    r = self.pm.lookup_method(c, n.attr) if c is not None else None
                    if r is not None and r.is_property:
                        r = None
                if isinstance(r, FuncInfo):
                    par = getattr(n, '_parent', None)
                    # binding into a template globals dict is accounted for by
                    # the template call sites
                    if isinstance(par, ast.Assign) and isinstance(par.targets[0], ast.Subscript):
                        continue
                    self.escapes.add(r.qualname)

    # ------------------------------------------------------------ parameters
    def _own_params(self, callee):
        params = callee.params
        if callee.cls is not None and not callee.is_staticmethod and params and \
                params[0] in ('self', 'cls'):
            params = params[1:]
        return params

    def _arg_for(self, callee, call, pname):
        params = self._own_params(callee)
        if pname not in params:
            return None
        for kw in call.keywords:
            if kw.arg == pname:
                return kw.value
        idx = params.index(pname)
        if any(isinstance(a, ast.Starred) for a in call.args) or \
                any(k.arg is None for k in call.keywords):
            return None
        if idx < len(call.args):
            return call.args[idx]
        return 'default'

    def _targ_for(self, callee, fact, pname):
        """(jinja arg node | 'default' | None)."""
        params = self._own_params(callee)
        if pname not in params or fact.star:
            return None
        if pname in fact.kwnodes:
            return fact.kwnodes[pname]
        idx = params.index(pname)
        if idx < len(fact.argnodes):
            return fact.argnodes[idx]
        return 'default'

    def _over_sites(self, f, pname, py, tpl, what):
        """Union over all call sites of ``py(caller, call, arg)`` /
        ``tpl(fact, argnode)``; None as soon as one site is unknown."""
        if f.qualname in self.escapes:
            self.unknown.append('%s escapes as a value' % f.short)
            return None
        sites = self.sites.get(f.qualname, [])
        tsites = self.template_sites.get(f.qualname, [])
        out = {}
        for caller, call in sites:
            arg = self._arg_for(f, call, pname)
            if arg is None:
                self.unknown.append('%s: %s not resolvable at %s:%d' % (
                    f.short, pname, caller.module.relpath, call.lineno))
                return None
            if isinstance(arg, str):
                continue
            cs = py(caller, call, arg)
            if cs is None:
                self.unknown.append('%s: %s of %s unknown at %s:%d (%s)' % (
                    f.short, what, pname, caller.module.relpath, call.lineno, unparse(arg)))
                return None
            for c, p in cs.items():
                out.setdefault(c, p if what != 'classes' else '%s (%s:%d)' % (
                    caller.short, caller.module.relpath, call.lineno))
        for fact in tsites:
            arg = self._targ_for(f, fact, pname)
            if arg is None:
                self.unknown.append('%s: %s not resolvable at %s' % (f.short, pname, fact.where))
                return None
            if isinstance(arg, str):
                continue
            cs = tpl(fact, arg)
            if cs is None:
                self.unknown.append('%s: %s of %s unknown at %s (%s)' % (
                    f.short, what, pname, fact.where, fact.text))
                return None
            for c in cs:
                out.setdefault(c, fact.where)
        return out

    def param_universe(self, f, pname):
        """{class: provenance} for parameter ``pname`` of ``f``, or None."""
        key = (f.qualname, pname, None)
        if key in self._pu:
            return self._pu[key]
        if key in self._busy:
            return {}
        self._busy.add(key)
        try:
            def tpl(fact, arg):
                t = fact.typer(arg)
                return set(t[1]) if t is not None and t[0] == 'cls' else None
            res = self._over_sites(f, pname, lambda c, call, a: self.classes_at(c, call, a), tpl,
                                   'classes')
        finally:
            self._busy.discard(key)
        self._pu[key] = res
        return res

    def path_universe(self, f, pname, attr):
        """Classes of ``<pname>.<attr>`` as narrowed by the callers."""
        key = (f.qualname, pname, attr)
        if key in self._pu:
            return self._pu[key]
        if key in self._busy:
            return {}
        self._busy.add(key)
        try:
            def py(caller, call, arg):
                node = ast.Attribute(value=arg, attr=attr, ctx=ast.Load())
                node.lineno = call.lineno
                return self.classes_at(caller, call, node)

            def tpl(fact, arg):
                t = fact.typer(arg, attr)
                return set(t[1]) if t is not None and t[0] == 'cls' else None
            res = self._over_sites(f, pname, py, tpl, 'path .%s' % attr)
        finally:
            self._busy.discard(key)
        self._pu[key] = res
        return res

    def elem_universe(self, f, pname):
        """Classes of the elements of list parameter ``pname``."""
        key = (f.qualname, pname, '[]')
        if key in self._pu:
            return self._pu[key]
        if key in self._busy:
            return {}
        self._busy.add(key)
        try:
            def py(caller, call, arg):
                if isinstance(arg, ast.Call):
                    out = {}
                    for g in self.resolve(caller, arg):
                        r = self._returned_list_elems(g)
                        if r is None:
                            return None
                        out.update(r)
                    return out if self.resolve(caller, arg) else None
                if isinstance(arg, (ast.List, ast.Tuple)):
                    out = {}
                    for x in arg.elts:
                        r = self.classes_at(caller, call, x)
                        if r is None:
                            return None
                        out.update(r)
                    return out
                # a single value wrapped by the callee (``if not isinstance(x, list): x = [x]``)
                return self.classes_at(caller, call, arg)
            res = self._over_sites(f, pname, py, lambda fact, arg: None, 'elements')
        finally:
            self._busy.discard(key)
        self._pu[key] = res
        return res

    def _returned_list_elems(self, g):
        """Elements appended to the list a function returns (appends in the
        function and in its nested helpers)."""
        rets = [n.value for n in own_nodes(g.node) if isinstance(n, ast.Return) and
                n.value is not None]
        names = {r.id for r in rets if isinstance(r, ast.Name)}
        if len(names) != 1 or len(rets) != len([r for r in rets if isinstance(r, ast.Name)]):
            return None
        name = names.pop()
        out = {}
        scopes = [g] + list(g.nested.values())
        found = False
        for h in scopes:
            for c in own_nodes(h.node):
                if isinstance(c, ast.Call) and isinstance(c.func, ast.Attribute) and \
                        c.func.attr == 'append' and unparse(c.func.value) == name and \
                        len(c.args) == 1:
                    found = True
                    r = self.classes_at(h, c, c.args[0])
                    if r is None:
                        return None
                    out.update(r)
        return out if found else None

    # ------------------------------------------------------------ seeding
    def _reaching(self, f, name, at):
        """Bindings of local ``name`` that can reach ``at``; (list, param_live)."""
        d = defs(f.node)
        vals = d.values.get(name, [])
        if at is None or getattr(at, 'lineno', None) is None:
            return list(vals), True
        at_loops = _loops_of(at)
        killer = None
        for kind, v, stmt in vals:
            if getattr(stmt, '_parent', None) is f.node and not kind.startswith('iter') and \
                    _end(stmt) < _pos(at) and (killer is None or _ln(stmt) > _ln(killer)):
                killer = stmt
        out = []
        for kind, v, stmt in vals:
            if killer is not None and _ln(stmt) < _ln(killer):
                continue
            if isinstance(stmt, ast.comprehension):
                # a comprehension variable is bound for the whole comprehension (the element
                # expression is written before the `for` clause) and nowhere else
                owner = getattr(stmt, '_parent', None)
                inside = False
                x = at
                while x is not None:
                    if x is owner:
                        inside = True
                        break
                    x = getattr(x, '_parent', None)
                if inside and not (x is owner and _is_within(at, stmt.iter)):
                    out.append((kind, v, stmt))
                continue
            if _ln(stmt) <= _pos(at):
                # a loop variable does not reach the iterable of its own loop
                if kind.startswith('iter') and any(l is stmt and part == 'iter'
                                                   for l, part in at_loops):
                    continue
                out.append((kind, v, stmt))
                continue
            # a later binding reaches only around a loop both are in the body of,
            # unless that loop's own target rebinds the name at every iteration
            st_loops = {id(l) for l, part in _loops_of(stmt) if part == 'body'}
            if any(id(l) in st_loops and part == 'body' and not (
                    isinstance(l, (ast.For, ast.AsyncFor)) and
                    any(isinstance(t, ast.Name) and t.id == name for t in ast.walk(l.target)))
                    for l, part in at_loops):
                out.append((kind, v, stmt))
        return out, killer is None

    def _seed(self, f, e, depth=6, at=None, stack=()):
        if depth < 0:
            return None
        if self.seed_hook is not None:
            r = self.seed_hook(self, f, e, at)
            if r is not NotImplemented:
                return r
        if isinstance(e, ast.Attribute) and e.attr in TYPED_ATTRS:
            t = TYPED_ATTRS[e.attr]
            if e.attr == 'parent_type':
                own = self._seed(f, e.value, depth - 1, at, stack)
                if own is None:
                    return None
                own = self.narrow(f, at, unparse(e.value), own) if at is not None else set(own)
                cs = frozenset(t) & set(own)
            else:
                cs = self.U if t == ANY else frozenset(t)
            out = {c: 'schema .%s' % e.attr for c in cs}
            if isinstance(e.value, ast.Name) and e.value.id in f.params and \
                    not defs(f.node).values.get(e.value.id):
                pu = self.path_universe(f, e.value.id, e.attr)
                if pu is not None:
                    out = {c: p for c, p in pu.items() if c in out}
            return out
        if isinstance(e, ast.IfExp):
            a = self._seed(f, e.body, depth - 1, at, stack)
            b = self._seed(f, e.orelse, depth - 1, at, stack)
            if a is None or b is None:
                return None
            return {**a, **b}
        if not isinstance(e, ast.Name):
            return None
        d = defs(f.node)
        key = (f.qualname, e.id)
        is_param = e.id in d.params
        if key in stack:
            # the name on the right-hand side of its own rebinding
            return self.param_universe(f, e.id) if is_param else {}
        if not d.values.get(e.id) and not is_param:
            if f.parent is not None:      # closure variable
                return self._seed(f.parent, e, depth - 1, None, stack)
            return None
        vals, param_live = self._reaching(f, e.id, at)
        out = {}
        if is_param and param_live:
            base = self.param_universe(f, e.id)
            if base is None:
                return None
            out.update(base)
        sub = stack + (key,)
        for kind, v, stmt in vals:
            s = self._seed_binding(f, kind, v, stmt, depth, sub)
            if s is None:
                return None
            out.update(s)
        return out

    def _seed_binding(self, f, kind, v, stmt, depth, stack):
        if kind == 'assign':
            if isinstance(v, ast.Subscript) and isinstance(v.slice, ast.Constant) and \
                    isinstance(v.value, ast.Name):
                return self._tuple_elem(f, v.value.id, v.slice.value)
            return self._seed(f, v, depth - 1, stmt, stack)
        if kind.startswith('assign-unpack:') and isinstance(v, ast.Call):
            idx = int(kind.split(':')[1])
            strip = {'unwrap_nullable': {'Nullable'}, 'unwrap_aliases': {'Alias'},
                     'unwrap': {'Nullable', 'Alias'}}.get(call_name(v))
            if strip is not None and v.args:
                if idx != 0:
                    return None
                s = self._seed(f, v.args[0], depth - 1, stmt, stack)
                if s is None:
                    return None
                out = {c: p for c, p in s.items() if c not in strip}
                if set(s) & strip:
                    # what was wrapped can be any type the backend sees
                    for c in self.U - strip:
                        out.setdefault(c, 'inside %s' % '/'.join(sorted(set(s) & strip)))
                return out
            for g in self.resolve(f, v):
                rets = [n for n in own_nodes(g.node) if isinstance(n, ast.Return)]
                if len(rets) == 1 and isinstance(rets[0].value, ast.Tuple) and \
                        idx < len(rets[0].value.elts):
                    return self._seed(g, rets[0].value.elts[idx], depth - 1, rets[0], ())
            return None
        if kind == 'iter':
            if isinstance(v, ast.Name) and v.id not in f.params:
                src = defs(f.node).single(v.id)
                if src is not None:
                    v = src
            if isinstance(v, ast.Call) and call_name(v) == 'linearize_data_types':
                return {'Struct': 'linearize_data_types()', 'Union': 'linearize_data_types()'}
            if isinstance(v, ast.Call) and call_name(v) == 'get_enumerated_subtypes':
                return {'UnionField': 'get_enumerated_subtypes()'}
            if isinstance(v, ast.Attribute) and v.attr == 'data_types':
                return {'Struct': '.data_types', 'Union': '.data_types'}
            if isinstance(v, ast.Attribute) and v.attr == 'aliases':
                return {'Alias': '.aliases'}
            if isinstance(v, ast.Call) and call_name(v) == 'get_data_types_for_namespace':
                return {'Struct': 'get_data_types_for_namespace()',
                        'Union': 'get_data_types_for_namespace()',
                        'Alias': 'get_data_types_for_namespace()'}
            if isinstance(v, ast.Attribute) and v.attr in FIELD_LISTS:
                own = self.classes_at(f, stmt, v.value)
                if own is None:
                    return None
                s = {}
                if 'Struct' in own:
                    s['StructField'] = '%s of a struct' % v.attr
                if 'Union' in own:
                    s['UnionField'] = '%s of a union' % v.attr
                return s
            if isinstance(v, ast.Name) and v.id in f.params:
                return self.elem_universe(f, v.id)
            return None
        if kind == 'iter-unpack:1' and isinstance(v, ast.Call) and \
                call_name(v) == 'get_all_subtypes_with_tags':
            return {'Struct': 'get_all_subtypes_with_tags()'}
        return None

    def _tuple_elem(self, f, name, idx):
        """``name[idx]`` where name iterates get_all_subtypes_with_tags()."""
        d = defs(f.node)
        for kind, v, stmt in d.values.get(name, []):
            if kind != 'iter':
                return None
            src = v
            if isinstance(src, ast.Name):
                src = d.single(src.id)
            if isinstance(src, ast.Call) and call_name(src) == 'get_all_subtypes_with_tags' and \
                    idx == 1:
                return {'Struct': 'get_all_subtypes_with_tags()'}
            return None
        return None

    # ------------------------------------------------------------ narrowing
    def narrow(self, f, node, subject, classes):
        pi = path_info(f.node)
        cur = set(classes)
        full = self.fam.universe()
        for e, pol in pi.at(node):
            s = class_test(self.pm, self.fam, f.module, e, subject)
            if s is None and isinstance(e, ast.Compare) and len(e.ops) == 1 and \
                    unparse(e.left) == subject + '.name' and \
                    isinstance(e.comparators[0], ast.Constant) and \
                    e.comparators[0].value == 'Void' and \
                    isinstance(e.ops[0], (ast.Eq, ast.NotEq)):
                s = frozenset({'Void'})
                if isinstance(e.ops[0], ast.NotEq):
                    s = full - s
            if s is not None:
                keep = s if pol else full - s
                cur = {c for c in cur if c in keep or c not in full}
        return cur

    # ------------------------------------------------------------ callee preconditions
    def must_raise(self, g, pname):
        """Classes of parameter ``pname`` for which ``g`` never returns normally:
        the complement of the classes consistent with some path that reaches a
        return or the end of the function.  Calls of nested helpers that only
        raise count as raises."""
        key = (g.qualname, pname, 'must-raise')
        if key in self._pu:
            return self._pu[key]
        from .model import AnalysisError
        from .paths import enumerate_paths
        from .pathcond import terminates
        full = self.fam.universe()
        out = frozenset()
        if not defs(g.node).values.get(pname):
            raisers = tuple(nm for nm, h in g.nested.items()
                            if terminates(h.node.body) and not any(
                                isinstance(x, ast.Return) for x in own_nodes(h.node)))
            try:
                paths = enumerate_paths(g.node, max_paths=4000, local_raisers=raisers)
            except AnalysisError:
                paths = None
            if paths is not None:
                may = set()
                tested = False
                for p in paths:
                    if p.end == 'raise':
                        continue
                    cur = set(full)
                    for e, pol in p.atoms:
                        t = class_test(self.pm, self.fam, g.module, e, pname)
                        if t is not None:
                            tested = True
                            cur &= (t if pol else full - t)
                    may |= cur
                if tested:
                    out = frozenset(full - may)
        self._pu[key] = out
        return out

    def _guaranteed_calls(self, stmt):
        """Calls that certainly ran when control passed ``stmt``."""
        if isinstance(stmt, ast.Expr) and isinstance(stmt.value, ast.Call):
            return [stmt.value]
        if isinstance(stmt, ast.Assign) and isinstance(stmt.value, ast.Call):
            return [stmt.value]
        if isinstance(stmt, (ast.With, ast.AsyncWith)):
            return [c for s2 in stmt.body for c in self._guaranteed_calls(s2)]
        if isinstance(stmt, ast.If) and stmt.orelse:
            a = [c for s2 in stmt.body for c in self._guaranteed_calls(s2)]
            b = [c for s2 in stmt.orelse for c in self._guaranteed_calls(s2)]
            return [c for c in a if any(unparse(c.func) == unparse(d.func) for d in b)] + \
                [d for d in b if any(unparse(c.func) == unparse(d.func) for c in a)]
        return []

    def _precondition_excluded(self, f, node, subject):
        """Classes of ``subject`` excluded because an earlier, unconditional
        call on the path raises for them."""
        out = set()
        child = node
        while child is not None and child is not f.node:
            par = getattr(child, '_parent', None)
            if par is None:
                break
            for field in ('body', 'orelse', 'finalbody'):
                blk = getattr(par, field, None)
                if isinstance(blk, list) and child in blk:
                    for prev in blk[:blk.index(child)]:
                        calls = self._guaranteed_calls(prev)
                        if isinstance(prev, ast.If) and prev.orelse:
                            # the same exclusion must hold on both branches
                            groups = {}
                            for c in calls:
                                groups.setdefault(unparse(c.func), []).append(c)
                            for cs in groups.values():
                                ex = [self._call_excludes(f, c, subject) for c in cs]
                                if len(ex) >= 2:
                                    out |= set.intersection(*map(set, ex))
                        else:
                            for c in calls:
                                out |= self._call_excludes(f, c, subject)
            child = par
        return out

    def _call_excludes(self, f, call, subject):
        out = None
        for g in self.resolve(f, call):
            params = self._own_params(g)
            ex = set()
            for i, a in enumerate(call.args):
                if unparse(a) == subject and i < len(params):
                    ex |= self.must_raise(g, params[i])
            for kw in call.keywords:
                if kw.arg in params and unparse(kw.value) == subject:
                    ex |= self.must_raise(g, kw.arg)
            out = ex if out is None else (out & ex)
        return out or set()

    def classes_at(self, f, node, expr):
        """{class: provenance} of ``expr`` when ``node`` executes, or None."""
        seed = self._seed(f, expr, 6, node)
        if seed is None:
            return None
        keep = self.narrow(f, node, unparse(expr), seed)
        if keep and isinstance(expr, (ast.Name, ast.Attribute)):
            keep = keep - self._precondition_excluded(f, node, unparse(expr))
        return {c: p for c, p in seed.items() if c in keep}
