"""C11 -- meaning does not depend on file order, definition order, layout or
delivery.  Structural part (DESIGN 4/C11): every declaration-ordered registry
is normalised; no registry store depends on which declaration came last;
unordered iteration in the frontend is sorted before it reaches the API
description; two-phase resolution; one shared environment per namespace;
lexer state pairing; raw spec text is tokenised only by the lexer.
"""
import ast

from ..model import call_name, own_nodes, unparse
from ..pathcond import path_info
from ..paths import enumerate_paths

PROP = 'C11'
GEN = 'stone.frontend.ir_generator.IRGenerator'
API = 'stone.ir.api'
LEXER = 'stone.frontend.lexer.Lexer'
EXPLANATION = (
    'Order-independence analysis of the frontend. R1: every list registry of ApiNamespace that '
    'an add_* method appends to in declaration order is sorted by ApiNamespace.normalize (routes, '
    'data_types, aliases, annotations, annotation_types), Api.normalize sorts namespaces, and '
    'generate_IR normalises before returning. R2: every store into a name-keyed registry of the '
    'generator is dominated by a membership test, so no declaration silently replaces another '
    'depending on file order. R3: API-description queries built by iterating dicts/sets '
    '(get_imported_namespaces, get_route_io_data_types, get_namespaces_imported_by_route_io) '
    'return a value that was sorted on every path (an in-place sort of the returned list or a '
    'sorted() that is actually returned). R4: no population pass runs before the forward-'
    'reference loop over all files has finished; on-demand population in _resolve_type uses the '
    'referenced namespace\'s environment and is cycle-guarded; all files of a namespace share one '
    'environment. R5: raw spec text is never split on a literal that is a lexer keyword outside '
    'the lexer. R6: the lexer enters its newline-ignoring state on `(` by push_state and leaves '
    'it on `)` by pop_state (nesting preserved). Decides these structural parts; the lexer\'s '
    'comment/blank-line/indent arithmetic is value-level and not decided.'
    ' RD (effect-condition drift, stonelint.effects): for the functions this property is anchored in (stonelint.ownership) the path formula of every raise / return / continue / break / assignment / call statement is compared with reference/effects.json by truth table over the leaf tests (so nested vs merged tests, guard clauses vs if/else ladders, De Morgan forms read alike); an effect lost on a path, or a control effect gained on one, is a violation; changed texts and re-spelled tests are not claimed.'
    " RE (expression drift, stonelint.exprdrift): the same functions' attribute names, variable reads, simple statements, calls and arithmetic/slice literals are compared with reference/expressions.json; a substituted attribute or variable, a dropped call or assignment, swapped arguments or a changed literal is a violation; any other edit is not claimed. RC (call-condition drift, stonelint.effects.run_calls): for every call of a repository or imported-library function in those functions, the path conditions of its occurrences are compared with reference/effects.json by truth table; an assignment under which the function used to make the call and now completes without it is a violation (tests on memo tables, emptiness of the iterated collection and earlier refusals excepted; re-spelled conditions are not claimed). MK (memo-key rule, stonelint.memo): a memo table or done-set the reference tree does not have must be keyed by every access path the skipped code reads, injectively and type-aware."
    ' GR (stonelint.grammar, shared with C01): the lexer tables that decide how layout is read (token regexes incl. NEWLINE and comment rules, ignored characters, states) give the same first token as the reference tables on every probe text.'
    ' RI (interface drift, stonelint.interface): constants and tables (folded values), compiled regular expressions (witness text), parameter defaults, special methods, base classes and caching decorators of the modules the property rests on are compared with reference/interface.json; only a concrete difference in what is computed is reported.'
    ' MU (mutation drift, stonelint.mutation): the functions the property rests on update in place only the caller-owned, class-level and module-level objects they updated on the confirmed tree, and have no new handler that swallows an exception (reference/mutations.json).')
ASSUMPTIONS = [
    'fields, tags and examples keep declaration order and namespace docs concatenate in file '
    'order by design (documented); they are not subject to R1',
]

REGISTRIES = {'routes': 'add_route', 'data_types': 'add_data_type', 'aliases': 'add_alias',
              'annotations': 'add_annotation', 'annotation_types': 'add_annotation_type'}


def sorted_returns(pm, ctx, rule):
    """API-description queries that iterate dicts/sets return a value sorted on
    every path.  Shared by C11 and C12."""
    for q in (API + '.ApiNamespace.get_imported_namespaces',
              API + '.ApiNamespace.get_route_io_data_types',
              API + '.ApiNamespace.get_namespaces_imported_by_route_io'):
        f = pm.func(q)
        paths = [p for p in enumerate_paths(f.node) if p.end == 'return']
        good = bool(paths)
        for p in paths:
            rv = p.end_node.value
            if isinstance(rv, ast.Call) and call_name(rv) == 'sorted':
                continue
            if isinstance(rv, ast.Name):
                sorted_in_place = any(
                    isinstance(s, ast.Expr) and isinstance(s.value, ast.Call) and
                    isinstance(s.value.func, ast.Attribute) and s.value.func.attr == 'sort' and
                    unparse(s.value.func.value) == rv.id for s in p.stmts)
                rebound_sorted = any(
                    isinstance(s, ast.Assign) and unparse(s.targets[0]) == rv.id and
                    isinstance(s.value, ast.Call) and call_name(s.value) == 'sorted'
                    for s in p.stmts)
                good &= sorted_in_place or rebound_sorted
            else:
                good = False
        ctx.check(rule, good, '%s returns a value sorted on every path (%d paths)' % (
            f.short, len(paths)), f.loc,
            msg='%s returns a list in dict/set iteration order (a sort was dropped or its result '
                'discarded): imports / IO types follow first-reference order' % f.short,
            key='%s|%s|sorted' % (rule, q))
        keys = [unparse(k.value) for c in own_nodes(f.node) if isinstance(c, ast.Call) and
                (call_name(c) == 'sorted' or (isinstance(c.func, ast.Attribute) and
                                              c.func.attr == 'sort'))
                for k in c.keywords if k.arg == 'key']
        ctx.check(rule, keys and all(k.endswith('.name') for k in keys),
                  '%s sorts by name' % f.short, f.loc,
                  msg='%s sorts by %s' % (f.short, keys), key='%s|%s|key' % (rule, q))



def run(pm, ctx):
    for r, t in (('C11-R1', 'declaration-ordered registries are normalised'),
                 ('C11-R2', 'no registry store depends on declaration order'),
                 ('C11-R3', 'unordered iteration is sorted before it is returned'),
                 ('C11-R4', 'two-phase resolution and shared environments'),
                 ('C11-R5', 'spec text is tokenised only by the lexer'),
                 ('C11-R6', 'lexer state push/pop pairing')):
        ctx.rule(r, t)

    # ---------------- R1
    ns = pm.cls(API + '.ApiNamespace')
    nn = pm.func(API + '.ApiNamespace.normalize')
    sorted_regs = set()
    for c in own_nodes(nn.node):
        if isinstance(c, ast.Call) and isinstance(c.func, ast.Attribute) and c.func.attr == 'sort' \
                and isinstance(c.func.value, ast.Attribute) and \
                unparse(c.func.value.value) == 'self':
            sorted_regs.add(c.func.value.attr)
        if isinstance(c, ast.Assign) and isinstance(c.value, ast.Call) and \
                call_name(c.value) == 'sorted':
            for t in c.targets:
                if isinstance(t, ast.Attribute):
                    sorted_regs.add(t.attr)
    init = ns.methods['__init__']
    lists = [unparse(n.targets[0])[5:] for n in own_nodes(init.node)
             if isinstance(n, ast.Assign) and isinstance(n.value, ast.List) and
             unparse(n.targets[0]).startswith('self.')]
    for reg in lists:
        appended = any(isinstance(c, ast.Call) and unparse(c.func) == 'self.%s.append' % reg
                       for m in ns.methods.values() for c in own_nodes(m.node))
        if not appended:
            continue
        ctx.check('C11-R1', reg in sorted_regs,
                  'ApiNamespace.%s (appended in declaration order) is sorted by normalize' % reg,
                  nn.loc, msg='ApiNamespace.%s keeps declaration order: backends that iterate it '
                              'emit output that depends on definition/file order' % reg,
                  key='C11-R1|%s|%s' % (nn.qualname, reg))
    an = pm.func(API + '.Api.normalize')
    src = ' ; '.join(unparse(s) for s in an.node.body)
    ctx.check('C11-R1', 'sorted(self.namespaces.keys())' in src and 'namespace.normalize()' in src,
              'Api.normalize sorts namespaces and normalises each', an.loc,
              msg='Api.normalize changed', key='C11-R1|%s' % an.qualname)
    g = pm.func(GEN + '.generate_IR')
    paths = [p for p in enumerate_paths(g.node) if p.end == 'return']
    ok = bool(paths) and all(any(isinstance(s, ast.Expr) and
                                 unparse(s.value) == 'self.api.normalize()' for s in p.stmts)
                             for p in paths)
    ctx.check('C11-R1', ok, 'every returning path of generate_IR normalises the API (%d paths)'
              % len(paths), g.loc, msg='generate_IR can return an un-normalised API',
              key='C11-R1|%s|normalize' % g.qualname)
    wl = [i for i, s in enumerate(g.node.body) if '_filter_namespaces_by_route_whitelist' in unparse(s)]
    nm = [i for i, s in enumerate(g.node.body) if unparse(s) == 'self.api.normalize()']
    ctx.check('C11-R1', wl and nm and wl[0] < nm[0],
              'the whitelist filter (which rebuilds lists from sets) runs before normalize', g.loc,
              msg='normalize no longer follows the whitelist filter',
              key='C11-R1|%s|filter-before-normalize' % g.qualname)

    # ---------------- R2 (same construct as C02-R7)
    registries = ('_item_by_canonical_name', '_patch_data_by_canonical_name',
                  '_env_by_namespace')
    for f in pm.funcs_in('stone.frontend.ir_generator'):
        pi = path_info(f.node)
        for n in own_nodes(f.node):
            if isinstance(n, ast.Assign) and isinstance(n.targets[0], ast.Subscript) and \
                    isinstance(n.targets[0].value, ast.Attribute) and \
                    n.targets[0].value.attr in registries:
                reg = unparse(n.targets[0].value)
                key = unparse(n.targets[0].slice)
                tested = any(isinstance(e, ast.Compare) and
                             isinstance(e.ops[0], (ast.In, ast.NotIn)) and
                             unparse(e.comparators[0]) == reg and unparse(e.left) == key and
                             (pol == isinstance(e.ops[0], ast.NotIn))
                             for e, pol in pi.at(n))
                exempt = f.name == 'generate_IR' and reg.endswith('_item_by_canonical_name')
                ctx.check('C11-R2', tested or exempt,
                          '%s: %s[%s] stored only when unbound' % (f.short, reg, key),
                          '%s:%d' % (f.module.relpath, n.lineno),
                          msg='%s overwrites %s[%s]: which declaration survives depends on file '
                              'order' % (f.short, reg, key),
                          key='C11-R2|%s|%s' % (f.qualname, reg))
    # environment values likewise (C01-R4 in short)
    for nm_ in ('_create_alias', '_create_annotation', '_create_annotation_type', '_create_type'):
        f = pm.func(GEN + '.' + nm_)
        pi = path_info(f.node)
        stores = [n for n in own_nodes(f.node) if isinstance(n, ast.Assign) and
                  isinstance(n.targets[0], ast.Subscript) and
                  unparse(n.targets[0].value) == 'env']
        ctx.check('C11-R2', len(stores) == 1 and any(
            unparse(e) == 'item.name in env' and not pol for e, pol in pi.at(stores[0])),
            '%s binds a name only when unbound' % nm_, f.loc,
            msg='%s can rebind a name: the later definition wins' % nm_,
            key='C11-R2|%s|env' % f.qualname)

    # ---------------- R3
    sorted_returns(pm, ctx, 'C11-R3')

    # ---------------- R4
    from .C01 import ORDER, PASSES, on_demand_population
    pos = {}
    for i, s in enumerate(g.node.body):
        for c in ast.walk(s):
            if isinstance(c, ast.Call) and isinstance(c.func, ast.Attribute) and \
                    c.func.attr in PASSES:
                pos.setdefault(c.func.attr, i)
    fwd = pos.get('_add_data_types_and_routes_to_api')
    loop = g.node.body[fwd] if fwd is not None else None
    ok = isinstance(loop, ast.For) and unparse(loop.iter) == 'self._partial_asts' and \
        all(pos[p] > fwd for p in PASSES if p != '_add_data_types_and_routes_to_api' and p in pos)
    ctx.check('C11-R4', ok, 'all files are registered (forward references) before any population '
              'pass runs', g.loc, msg='a population pass runs inside/before the per-file '
                                      'registration loop', key='C11-R4|%s|two-phase' % g.qualname)
    in_loop = [call_name(c) for c in ast.walk(loop) if isinstance(c, ast.Call)] if loop else []
    ctx.check('C11-R4', not any(x.startswith('_populate') or x.startswith('_validate') or
                                x == '_merge_patches' for x in in_loop if x),
              'the per-file loop only registers', g.loc,
              msg='the per-file loop also populates/validates: %s' % in_loop,
              key='C11-R4|%s|loop-body' % g.qualname)
    on_demand_population(pm, ctx, 'C11-R4')
    ge = pm.func(GEN + '._get_or_create_env')
    pi = path_info(ge.node)
    stores = [n for n in own_nodes(ge.node) if isinstance(n, ast.Assign) and
              unparse(n.targets[0]) == 'self._env_by_namespace[namespace_name]']
    reads = [n for n in own_nodes(ge.node) if isinstance(n, ast.Assign) and
             unparse(n.value) == 'self._env_by_namespace[namespace_name]']
    ok = len(stores) == 1 and len(reads) == 1 and \
        any(unparse(e) == 'namespace_name in self._env_by_namespace' and not pol
            for e, pol in pi.at(stores[0])) and \
        any(unparse(e) == 'namespace_name in self._env_by_namespace' and pol
            for e, pol in pi.at(reads[0]))
    ctx.check('C11-R4', ok, 'one environment per namespace name, created once and shared by all '
              'its files', ge.loc, msg='_get_or_create_env no longer shares one environment per '
                                       'namespace', key='C11-R4|%s|shared' % ge.qualname)
    copy_ = [n for n in own_nodes(ge.node) if isinstance(n, ast.Call) and
             unparse(n.func) == 'copy.copy' and 'default_env' in unparse(n)]
    ctx.check('C11-R4', len(copy_) == 1, 'a new environment starts from a copy of default_env',
              ge.loc, msg='new environments no longer start from a copy of default_env',
              key='C11-R4|%s|copy' % ge.qualname)
    ens = pm.func(API + '.Api.ensure_namespace')
    pi = path_info(ens.node)
    st = [n for n in own_nodes(ens.node) if isinstance(n, ast.Assign) and
          'self.namespaces[name]' == unparse(n.targets[0])]
    ctx.check('C11-R4', len(st) == 1 and any(unparse(e) == 'name not in self.namespaces' and pol
                                             for e, pol in pi.at(st[0])),
              'ensure_namespace creates a namespace only once', ens.loc,
              msg='ensure_namespace can replace an existing namespace',
              key='C11-R4|%s' % ens.qualname)
    ad = pm.func(API + '.ApiNamespace.add_doc')
    ctx.check('C11-R4', any(isinstance(n, ast.AugAssign) and unparse(n.target) == 'self.doc'
                            for n in own_nodes(ad.node)),
              'namespace docs of several files are concatenated (documented order dependence)',
              ad.loc, msg='add_doc no longer concatenates', key='C11-R4|%s' % ad.qualname)

    # ---------------- R5
    kw = pm.lookup_class_attr(pm.cls(LEXER), 'KEYWORDS')
    keywords = {e.value for e in kw.elts} if isinstance(kw, ast.List) else set()
    ctx.check('C11-R5', len(keywords) >= 10, 'lexer keyword table found (%d)' % len(keywords),
              pm.cls(LEXER).module.relpath, msg='lexer KEYWORDS table not found',
              key='C11-R5|keywords')
    n5 = 0
    for f in pm.funcs_in('stone.cli', 'stone.compiler', 'stone.frontend.frontend'):
        for c in own_nodes(f.node):
            if isinstance(c, ast.Call) and isinstance(c.func, ast.Attribute) and \
                    c.func.attr in ('split', 'rsplit', 'partition', 'find', 'index') and c.args \
                    and isinstance(c.args[0], ast.Constant) and isinstance(c.args[0].value, str):
                n5 += 1
                lit = c.args[0].value.strip()
                ctx.check('C11-R5', lit not in keywords,
                          '%s: %s(%r) does not cut text at a language keyword' % (
                              f.short, c.func.attr, c.args[0].value),
                          '%s:%d' % (f.module.relpath, c.lineno),
                          msg='%s splits raw text on the keyword %r without tokenising: a spec '
                              'fed through stdin whose doc string or identifier contains %r is '
                              'cut in the wrong place' % (f.short, lit, lit),
                          key='C11-R5|%s|split-on-%s' % (f.qualname, lit))
    ctx.extra['literal_text_cuts_examined'] = n5

    # ---------------- R6
    lp = pm.func(LEXER + '.t_LPAR')
    rp = pm.func(LEXER + '.t_RPAR')
    pushes = [c for c in own_nodes(lp.node) if isinstance(c, ast.Call) and
              isinstance(c.func, ast.Attribute) and c.func.attr == 'push_state']
    pops = [c for c in own_nodes(rp.node) if isinstance(c, ast.Call) and
            isinstance(c.func, ast.Attribute) and c.func.attr == 'pop_state']
    begins = [c for f in (lp, rp) for c in own_nodes(f.node) if isinstance(c, ast.Call) and
              isinstance(c.func, ast.Attribute) and c.func.attr == 'begin']
    ctx.check('C11-R6', len(pushes) == 1 and len(pops) == 1 and not begins and
              unparse(pushes[0].args[0]) == "'WSIGNORE'",
              '`(` pushes WSIGNORE and `)` pops it (nested parentheses keep ignoring newlines)',
              lp.loc, msg='the lexer no longer pairs push_state on `(` with pop_state on `)`: a '
                          'line break after an inner `)` ends the continuation',
              key='C11-R6|paren-state')
    st = pm.lookup_class_attr(pm.cls(LEXER), 'states')
    ctx.check('C11-R6', st is not None and "('WSIGNORE', 'inclusive')" in unparse(st),
              'WSIGNORE is an inclusive state (all token rules stay active inside parentheses)',
              pm.cls(LEXER).module.relpath, msg='WSIGNORE is no longer an inclusive lexer state',
              key='C11-R6|inclusive')
    # ---------------- R12: standard input is cut into specs in reading order
    ctx.rule('C11-R12', 'the pieces standard input is split into reach specs_to_ir in the order '
                        'they were read: the list of pieces is consumed from the front '
                        '(pop(0)) or iterated forwards, never from the back')
    from ..dataflow import defs as _defs
    mn = pm.func('stone.cli.main')
    pieces = [nm for nm, vals in _defs(mn.node).values.items()
              if any(isinstance(v, ast.Call) and isinstance(v.func, ast.Attribute) and
                     v.func.attr == 'split' and 'stdin' in unparse(v.func.value)
                     for _, v, _ in vals)]
    ctx.floor('C11-R12', len(pieces), 1, 'lists of pieces of the standard input text in cli.main')
    for nm in pieces:
        bad = []
        for c in own_nodes(mn.node):
            if isinstance(c, ast.Call) and isinstance(c.func, ast.Attribute) and \
                    isinstance(c.func.value, ast.Name) and c.func.value.id == nm:
                if c.func.attr == 'pop' and not (
                        len(c.args) == 1 and isinstance(c.args[0], ast.Constant) and
                        c.args[0].value == 0):
                    bad.append(unparse(c))
                elif c.func.attr in ('reverse', 'sort'):
                    bad.append(unparse(c))
            elif isinstance(c, ast.Call) and isinstance(c.func, ast.Name) and \
                    c.func.id in ('reversed', 'sorted', 'set') and c.args and \
                    isinstance(c.args[0], ast.Name) and c.args[0].id == nm:
                bad.append(unparse(c))
        ctx.check('C11-R12', not bad, 'cli.main consumes `%s` front to back' % nm, mn.loc,
                  msg='cli.main takes the pieces of standard input out of order (%s): the specs '
                      'reach the compiler in another order than the same text split into files, '
                      'and namespace docs concatenate differently' % ', '.join(bad),
                  key='C11-R12|%s|%s' % (mn.qualname, nm))

    # ---------------- R7: two-phase example population
    ctx.rule('C11-R7', 'examples of every namespace are registered before any example is computed '
                       '(an example may refer to an example of an imported namespace listed later); '
                       'parser state is reset per file')
    pe = pm.func('stone.frontend.ir_generator.IRGenerator._populate_examples')

    def top_loop(call):
        n, top = call, None
        while n is not None and n is not pe.node:
            if isinstance(n, (ast.For, ast.While)):
                top = n
            n = getattr(n, '_parent', None)
        return top
    adds = [c for c in own_nodes(pe.node) if isinstance(c, ast.Call) and
            call_name(c) == '_add_example']
    comps = [c for c in own_nodes(pe.node) if isinstance(c, ast.Call) and
             call_name(c) == '_compute_examples']
    ok7 = bool(adds) and bool(comps)
    if ok7:
        add_loops = {id(top_loop(c)) for c in adds}
        comp_loops = {id(top_loop(c)) for c in comps}
        ok7 = not (add_loops & comp_loops) and None not in (top_loop(adds[0]), top_loop(comps[0])) \
            and max(top_loop(c).end_lineno for c in adds) < min(top_loop(c).lineno for c in comps)
    ctx.check('C11-R7', ok7, '_populate_examples registers all examples (every namespace) in a '
              'loop that ends before the loop that computes them starts', pe.loc,
              msg='_populate_examples computes examples inside the loop that registers them: a '
                  'reference to an example of a namespace visited later fails, depending on the '
                  'order of the spec files', key='C11-R7|%s|phases' % pe.qualname)
    from .C01 import parser_state
    parser_state(pm, ctx, 'C11-R7')

    # blank and comment-only lines do not count as indentation, whatever ignorable whitespace
    # they start with: the strip set of the indent computation covers the lexer's t_ignore set
    ign = pm.lookup_class_attr(pm.cls(LEXER), 't_ignore')
    ignored = set(ign.value) if isinstance(ign, ast.Constant) and isinstance(ign.value, str) \
        else None
    gi = pm.func(LEXER + '._get_next_line_indent_delta')
    strips = [c for c in own_nodes(gi.node) if isinstance(c, ast.Call) and
              isinstance(c.func, ast.Attribute) and c.func.attr in ('lstrip', 'strip')]
    covered = True
    for c in strips:
        if c.args:
            a = c.args[0]
            covered = covered and isinstance(a, ast.Constant) and isinstance(a.value, str) and \
                ignored is not None and ignored <= set(a.value)
    ctx.check('C11-R6', ignored is not None and len(strips) >= 1 and covered,
              'the indent computation strips every character of t_ignore before deciding that a '
              'line is blank or a comment', gi.loc,
              msg='_get_next_line_indent_delta strips %s but the lexer ignores %r: a blank or '
                  'comment line starting with the other characters is read as a dedent'
                  % ([unparse(c) for c in strips], sorted(ignored or ())),
              key='C11-R6|%s|strip-set' % gi.qualname)
    for nm_, want in (('t_WSIGNORE_NEWLINE', '_check_for_indent'),
                      ('t_INITIAL_NEWLINE', '_create_tokens_for_next_line_dent'),
                      ('t_WSIGNORE_comment', '_check_for_indent'),
                      ('t_INITIAL_comment', '_create_tokens_for_next_line_dent')):
        f = pm.func(LEXER + '.' + nm_)
        ctx.check('C11-R6', any(isinstance(c, ast.Call) and call_name(c) == want
                                for c in own_nodes(f.node)),
                  '%s hands the following line to %s' % (nm_, want), f.loc,
                  msg='%s no longer calls %s' % (nm_, want), key='C11-R6|%s' % f.qualname)

    from ..effects import run_decisions
    from ..ownership import OWN
    run_decisions(pm, ctx, 'C11-RD', OWN['C11'])
    from .. import exprdrift
    exprdrift.run(pm, ctx, 'C11-RE', OWN['C11'])
    from ..effects import run_calls
    run_calls(pm, ctx, 'C11-RC', OWN['C11'])
    from .. import memo
    memo.run(pm, ctx, 'C11-MK', OWN['C11'])
    from .. import interface
    interface.run(pm, ctx, 'C11-RI', OWN['C11'])
    from .. import mutation
    mutation.run(pm, ctx, 'C11-MU', OWN['C11'])
    from .. import grammar
    grammar.run(pm, ctx, 'C11-GR', which=('GR4',))
