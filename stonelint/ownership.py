"""Which functions each property is anchored in (regular expressions on
qualified names), transcribed from the ``anchors`` of properties.jsonl: the
files and the mechanisms named there.  Used by the reference-based drift rules
so that a changed decision is reported under the properties whose mechanism it
belongs to, and not under every property that shares the file."""

F = r'stone\.frontend\.'
G = F + r'ir_generator\.'
IG = G + r'IRGenerator\.'
DT = r'stone\.ir\.data_types\.'
API = r'stone\.ir\.api\.'
SER = r'stone\.backends\.python_rsrc\.stone_serializers\.'
VAL = r'stone\.backends\.python_rsrc\.stone_validators\.'
BASE = r'stone\.backends\.python_rsrc\.stone_base\.'
PT = r'stone\.backends\.python_types\.'
B = r'stone\.backends\.'

# the parts of python_types the runtime coder depends on: validators, attribute
# descriptors, reflection tables, subtype tag tables, defaults and their emission order
PT_RUNTIME = PT + (r'(generate_validator_constructor|generate_func_call|_get_ancestor_omitted_callers|'
                   r'PythonTypesBackend\.(_generate_struct_class_properties|'
                   r'_generate_struct_class_reflection_attributes|'
                   r'_generate_union_class_reflection_attributes|'
                   r'_generate_enumerated_subtypes_tag_mapping|'
                   r'_generate_struct_class_has_required_fields|'
                   r'_generate_struct_attributes_defaults|_generate_python_value|'
                   r'_generate_union_class_vars|_generate_base_namespace_module|'
                   r'_generate_struct_class_slots|_generate_struct_class_init))$')

# the emission primitives every generator is written with: what they put in the output buffer is
# part of what each generated-code property promises
EMIT = r'stone\.backend\.(Backend|CodeBackend)\.(emit\w*|make_indent|indent|block|generate_multiline_list|' \
       r'filter_out_none_valued_keys|process_doc)$'

OWN = {
    'C01': [F + r'lexer\.', F + r'parser\.', F + r'frontend\.',
            IG + r'(generate_IR|_populate_|_validate_|_merge_patches|_resolve_|_create_|_check_|'
                 r'_add_|_instantiate_|_inject_|_get_)',
            DT + r'\w+\.(set_attributes|set_enumerated_subtypes|check|check_example|'
                 r'check_attr_repr|_add_example\w*|__init__)$'],
    'C02': [F + r'parser\.ParserFactory\.(p_|make_)',
            IG + r'(_add_data_types_and_routes_to_api|_populate_|_resolve_type|_create_)',
            DT + r'\w+\.(all_fields|all_required_fields|all_optional_fields|_filter_fields|'
                 r'get_all_subtypes_with_tags|_get_subtype_tags|set_attributes|check_attr_repr)$',
            API + r'\w+\.(normalize|linearize_\w+|add_\w+|get_\w+)$'],
    'C03': [F, r'stone\.ir\.', r'stone\.cli\.main$'],
    'C04': [PT_RUNTIME, VAL + r'\w+\.validate\w*$', BASE + r'Attribute\.', SER + r'\w+\.(encode_|decode_|determine_struct_tree_subtype|make_stone_friendly)',
            SER + r'(json_|_strftime|_strptime|_make_)', BASE + r'(Struct|Union)\.__(eq|ne)__$'],
    'C05': [PT_RUNTIME, VAL + r'\w+\.validate\w*$', BASE + r'Attribute\.', SER + r'\w+\.encode', SER + r'_strftime'],
    'C06': [PT_RUNTIME, VAL + r'\w+\.validate\w*$', SER + r'\w+\.(decode_|determine_struct_tree_subtype|make_stone_friendly)',
            SER + r'json_(compat_obj_)?decode', VAL + r'Struct\.validate',
            BASE + r'(Attribute\.__set__|Union\.__init__)$'],
    'C07': [PT_RUNTIME, SER + r'\w+\.(decode_struct|decode_struct_fields|decode_union|decode_union_dict|'
                  r'decode_union_old|determine_struct_tree_subtype)$',
            BASE + r'Attribute\.__get__$'],
    'C08': [PT_RUNTIME, DT + r'\w+\.__init__$', VAL + r'\w+\.(validate\w*|__init__)$', BASE + r'(Attribute\.__set__|Union\.__init__)$',
            PT + r'(generate_validator_constructor|generate_func_call)$'],
    'C09': [EMIT, PT, B + r'python_helpers\.', API + r'ApiNamespace\.get_imported_namespaces$',
            IG + r'_resolve_type$'],        # records which namespaces a module must import
    'C10': [PT_RUNTIME, BASE + r'Attribute\.', DT + r'\w+\.__init__$', DT + r'\w+\.(check|check_example|_compute_example\w*|get_examples|_add_example\w*|'
                 r'_has_example)$', IG + r'(_populate_field_defaults|_create_struct_field)$',
            PT + r'PythonTypesBackend\.(_generate_struct_attributes_defaults|'
                 r'_generate_python_value|_generate_struct_class_properties)$'],
    'C11': [F + r'lexer\.', IG + r'(_add_|_populate_|_resolve_type|_get_or_create_env)',
            API + r'\w+\.normalize$', r'stone\.cli\.main$'],
    'C12': [API + r'\w+\.(normalize|get_imported_namespaces|get_route_io_data_types\w*|'
                  r'get_namespaces_imported_by_route_io)$',
            r'stone\.backend\.Backend\.(clear_output_buffer|output_to_relative_path)$',
            B + r'python_type_stubs\.ImportTracker\.'],
    'C13': [PT_RUNTIME, PT + r'PythonTypesBackend\.(_generate_struct_class_reflection_attributes|'
                 r'_generate_union_class_reflection_attributes|_generate_redactor)$',
            PT + r'_get_ancestor_omitted_callers$',
            SER + r'\w+\.(encode_struct|encode_union|decode_struct|encode_sub)$',
            BASE + r'Union\.(_is_tag_present|_get_val_data_type)$',
            VAL + r'(\w*Redactor)\.', DT + r'(Field|Alias)\.set_annotations$',
            DT + r'\w+\.get_all_omitted_callers$',
            IG + r'(_validate_annotations|_validate_field_can_be_tagged_with_redactor)'],
    'C14': [EMIT, B + r'python_client\.', B + r'python_helpers\.(fmt_func|fmt_obj|check_route_name_conflict)$',
            r'stone\.backend\.remove_aliases_from_api$', r'stone\.ir\.data_types\.(unwrap|resolve)_'],
    'C15': [EMIT, B + r'python_type_stubs\.', B + r'python_type_mapping\.', IG + r'_resolve_type$'],
    'C16': [EMIT, B + r'js_client\.', B + r'js_types\.', B + r'js_helpers\.', B + r'tsd_client\.',
            B + r'tsd_types\.', B + r'tsd_helpers\.', B + r'helpers\.', IG + r'_resolve_type$'],
    'C17': [EMIT, B + r'swift\.', B + r'swift_types\.', B + r'swift_client\.', B + r'swift_helpers\.',
            B + r'obj_c\.', B + r'obj_c_types\.', B + r'obj_c_client\.', B + r'obj_c_helpers\.'],
    'C18': [r'stone\.backend\.', r'stone\.compiler\.',
            r'stone\.cli\.(_actual_outputs|_validate_expected_output_manifest)$',
            B + r'swift\.SwiftBaseBackend\._write_output_in_target_folder$'],
    'C19': [r'stone\.cli_helpers\.', r'stone\.cli\.main$', API + r'ApiNamespace\.add_route$'],
    'C20': [IG + r'(_filter_namespaces_by_route_whitelist|_find_dependencies\w*)$',
            G + r'parse_data_types\w*$', API + r'ApiNamespace\.get_route_io_data_types\w*$'],
}


# operator methods of the IR classes run implicitly wherever an IR object is compared, hashed,
# printed or copied: they belong to every property
DUNDERS = r'stone\.ir\.\w+\.\w+\.__(eq|ne|hash|lt|le|gt|ge|repr|str|bool|len|iter|contains|copy|deepcopy)__$'
for _k in OWN:
    OWN[_k] = list(OWN[_k]) + [DUNDERS]


# ---------------------------------------------------------------------------
# closure: what the anchored functions rest on

# modules whose functions serve many properties; a function there belongs to every
# property whose anchored code (transitively) calls it or reads it as a property
SHARED = ('stone.ir.', 'stone.backend', 'stone.backends.helpers', 'stone.backends.python_helpers',
          'stone.backends.python_type_mapping', 'stone.backends.swift', 'stone.backends.obj_c')

_SEL = {}


def _allowed(src, dst):
    """May the closure step from a function of module ``src`` to one of ``dst``?"""
    if dst == src:
        return True
    if dst.startswith('stone.frontend') and not src.startswith('stone.frontend'):
        return False       # the frontend is entered through specs_to_ir only
    if src.startswith('stone.cli') or src == 'stone.compiler':
        return dst.startswith('stone.cli')      # orchestration: not what a property rests on
    if dst.startswith('stone.ir.') or dst in ('stone.backend', 'stone.backends.helpers'):
        return True
    if src.startswith('stone.frontend') and dst.startswith('stone.frontend'):
        return True
    # helpers of the same backend family
    fam = src.rsplit('.', 1)[-1].split('_')[0]
    return dst.rsplit('.', 1)[-1].split('_')[0] == fam and dst.startswith('stone.backends.')


def select(pm, patterns, closure=True):
    """Functions (with their nested functions) matching ``patterns`` plus, with
    ``closure``, every function they reach in the call graph (property reads
    included) inside the shared layers."""
    import re
    key = (id(pm), tuple(patterns), closure)
    hit = _SEL.get(key)
    if hit is not None and hit[0] is pm:
        return hit[1]
    pats = [re.compile(p) for p in patterns]
    roots = [f for q, f in sorted(pm.functions.items())
             if f.parent is None and any(p.search(q) for p in pats)]
    chosen = {f.qualname: f for f in roots}
    if closure:
        from .callgraph import CallGraph
        cg = getattr(pm, '_own_cg', None)
        if cg is None:
            cg = pm._own_cg = CallGraph(pm, properties=True)
        work = list(roots)
        while work:
            f = work.pop()
            for _, c in cg.callees(f):
                top = c
                while top.parent is not None:
                    top = top.parent
                if top.qualname in chosen:
                    continue
                if not _allowed(f.module.name, top.module.name):
                    continue
                chosen[top.qualname] = top
                work.append(top)
    out = []

    def add(f):
        out.append(f)
        for g in f.nested.values():
            add(g)
    for q in sorted(chosen):
        add(chosen[q])
    _SEL[key] = (pm, out)
    return out
